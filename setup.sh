#!/bin/bash
# Offline, idempotent: third-party helpers (icontract, jsonschema) go to /verif/.deps (git-ignored).
set -e
cd "$(dirname "$0")"
mkdir -p .work evidence
exec 9>.work/setup.lock
flock 9
if [ ! -f .deps/.ok ]; then
  rm -rf .deps
  PIP_NO_INDEX=1 /venv/bin/pip install -q --no-index --find-links /opt/veriftools/wheels --target .deps icontract jsonschema
  touch .deps/.ok
fi
