"""Random TdmsWriter programs + the shadow accumulation (what a correct write/read round trip must give)."""
import datetime
import io
import os
import numpy as np

NAME_ALPHABET = ['a', 'B', '1', ' ', "'", '/', 'é', '€', '😀', '"', '\\', '.']
TEXT_ALPHABET = ['a', 'b', 'Z', 'é', '€', '😀', ' ', "'", '/', '"', '\n', 'x']   # no NUL: numpy 'U' arrays strip trailing NULs
NUM_DTYPES = ['i1', 'i2', 'i4', 'i8', 'u1', 'u2', 'u4', 'u8', 'f4', 'f8', '?', 'c8', 'c16']
INT_BOUNDS = [0, 1, -1, 2 ** 31 - 1, 2 ** 31, -2 ** 31, -2 ** 31 - 1, 2 ** 63 - 1, 2 ** 63, -2 ** 63, 2 ** 64 - 1, 2 ** 32, 255, -128]


def rand_name(rng, allow_empty=True):
    n = rng.choice([0, 1, 1, 2, 3, 5] if allow_empty else [1, 1, 2, 3, 5])
    return ''.join(rng.choice(NAME_ALPHABET) for _ in range(n))


def rand_text(rng, nul=False):
    alphabet = TEXT_ALPHABET + ['\x00', '\x00'] if nul else TEXT_ALPHABET
    return ''.join(rng.choice(alphabet) for _ in range(rng.choice([0, 1, 2, 5, 12])))


def rand_dt(rng):
    """microsecond-resolution datetime64 within the TDMS/datetime range"""
    secs = rng.choice([0, 1, -1, rng.randrange(-2 ** 31, 2 ** 32), rng.randrange(-2082844800 - 10 ** 8, 4 * 10 ** 9),
                       rng.randrange(-62135596800, 253402300799)])       # whole datetime.datetime range (years 1..9999)
    us = rng.choice([0, 1, 999999, 500000, rng.randrange(10 ** 6), rng.randrange(10 ** 6)])
    return np.datetime64(secs * 10 ** 6 + us, 'us')


class PropSpec(object):
    """value given to the writer + what must be read back: (tdms type code, canonical value)"""
    def __init__(self, value, code, expect, note=''):
        self.value, self.code, self.expect, self.note = value, code, expect, note


def rand_prop(rng, types_mod):
    k = rng.choice(['int', 'int', 'bound', 'float', 'bool', 'str', 'dt', 'pydt', 'npscalar', 'wrapper', 'tdmsts'])
    if k in ('int', 'bound'):
        v = rng.choice(INT_BOUNDS) + (rng.choice([0, 1, -1]) if k == 'bound' else rng.randrange(-1000, 1000))
        if -2 ** 31 <= v < 2 ** 31:
            code = 3
        elif -2 ** 63 <= v < 2 ** 63:
            code = 4
        elif 2 ** 63 <= v < 2 ** 64:
            code = 8
        else:
            code = None      # cannot be represented: the writer must refuse
        return PropSpec(v, code, v, 'int')
    if k == 'float':
        v = rng.choice([0.0, -0.0, 1.5, float('nan'), float('inf'), float('-inf'), 1e308, 5e-324, rng.uniform(-1e6, 1e6)])
        return PropSpec(v, 10, v, 'float')
    if k == 'bool':
        v = rng.choice([True, False, np.bool_(True), np.bool_(False)])
        return PropSpec(v, 0x21, bool(v), 'bool')
    if k == 'str':
        v = rand_text(rng)
        return PropSpec(v, 0x20, v, 'str')
    if k == 'dt':
        v = rand_dt(rng)
        return PropSpec(v, 0x44, v, 'datetime64')
    if k == 'pydt':
        d = rand_dt(rng)
        py = d.astype(datetime.datetime)
        if not isinstance(py, datetime.datetime):
            return PropSpec(d, 0x44, d, 'datetime64')
        return PropSpec(py, 0x44, d, 'datetime')
    if k == 'npscalar':
        dt = rng.choice(['i1', 'i2', 'i4', 'i8', 'u1', 'u2', 'u4', 'u8', 'f4', 'f8'])
        code = {'i1': 1, 'i2': 2, 'i4': 3, 'i8': 4, 'u1': 5, 'u2': 6, 'u4': 7, 'u8': 8, 'f4': 9, 'f8': 10}[dt]
        if dt[0] == 'f':
            v = np.dtype(dt).type(rng.choice([0.5, -2.25, 1e10, rng.uniform(-100, 100)]))
        else:
            ii = np.iinfo(dt)
            v = np.dtype(dt).type(rng.choice([ii.min, ii.max, 0, rng.randrange(ii.min, ii.max + 1)]))
        return PropSpec(v, code, v.item(), 'np.' + dt)
    if k == 'wrapper':
        name, code, val = rng.choice([('Int8', 1, -5), ('Int16', 2, 300), ('Uint8', 5, 200), ('Uint16', 6, 65535), ('Uint32', 7, 2 ** 32 - 1),
                                      ('Int64', 4, 7), ('Uint64', 8, 3), ('SingleFloat', 9, 0.5), ('DoubleFloat', 10, 0.1),
                                      ('Int32', 3, -7), ('String', 0x20, 'wrapped é'), ('Boolean', 0x21, True)])
        return PropSpec(getattr(types_mod, name)(val), code, val, 'types.' + name)
    from nptdms.timestamp import TdmsTimestamp
    s, f = rng.randrange(-2 ** 40, 2 ** 40), rng.choice([0, 1, 2 ** 64 - 1, rng.randrange(2 ** 64)])
    return PropSpec(TdmsTimestamp(s, f), 0x44, ('raw', s, f), 'TdmsTimestamp')


class DataSpec(object):
    """data given to ChannelObject + expected read-back (kind, dtype-rule, values)"""
    def __init__(self, data, kind, expect, dtype_rule):
        self.data, self.kind, self.expect, self.dtype_rule = data, kind, expect, dtype_rule
        # what the caller's array holds when it is handed over (the writer must leave it like that)
        self.digest = (data.tobytes(), data.dtype.str) if isinstance(data, np.ndarray) and data.dtype != object else None


def rand_data(rng, kind, n):
    """kind fixed per channel so the channel keeps one TDMS type over all segments."""
    if kind.startswith('np:'):
        dt = kind[3:]
        size = np.dtype(dt).itemsize
        raw = rng.getrandbits(8 * n * size * 2).to_bytes(n * size * 2, 'little') if n else b''
        if dt == '?':
            base = np.frombuffer(bytes(b & 1 for b in raw), dtype='?').copy()
        else:
            base = np.frombuffer(raw, dtype=np.dtype(dt).newbyteorder('<')).astype(dt)
        form = rng.choice(['plain', 'plain', 'strided', 'reversed', 'swapped', 'readonly'])
        if form == 'strided':
            arr = base[::2]
        elif form == 'reversed':
            arr = base[:n][::-1]
        elif form == 'swapped' and dt not in ('?', 'i1', 'u1'):
            arr = base[:n].astype(np.dtype(dt).newbyteorder('>' if np.dtype(dt).newbyteorder('=').byteorder in '=<' else '<'))
        elif form == 'readonly':
            arr = base[:n].copy()
            arr.flags.writeable = False          # e.g. np.frombuffer over bytes, a memory-mapped file opened 'r'
        else:
            arr = base[:n]
        arr = arr[:n]
        return DataSpec(arr, kind + ':' + form, np.array(arr, dtype=dt).copy(), ('exact', np.dtype(dt)))
    if kind in ('floatlist', 'strlist', 'pydtlist'):
        n = max(n, 1)       # an empty Python list carries no type information at all
    if kind.startswith('intlist:'):
        lo, hi = {'i8': (-128, 127), 'u8': (0, 255), 'i16': (-2 ** 15, 2 ** 15 - 1), 'u16': (0, 2 ** 16 - 1), 'i32': (-2 ** 31, 2 ** 31 - 1),
                  'u32': (0, 2 ** 32 - 1), 'i64': (-2 ** 63, 2 ** 63 - 1), 'u64': (0, 2 ** 64 - 1)}[kind[8:]]
        vals = [rng.randrange(lo, hi + 1) for _ in range(max(0, n - 2))]
        vals = ([lo, hi] + vals)[:max(n, 2)]        # always span the range so the inferred dtype is stable
        rng.shuffle(vals)
        return DataSpec(vals, kind, vals, ('int-holding', None))
    if kind == 'floatlist':
        vals = [rng.uniform(-1e3, 1e3) for _ in range(n)]
        return DataSpec(vals, kind, np.array(vals, dtype='f8'), ('exact', np.dtype('f8')) if n else ('any', None))
    if kind == 'strlist':
        vals = [rand_text(rng, nul=True) for _ in range(n)]      # lists and object arrays keep NUL characters (compared as Python lists)
        return DataSpec(vals, kind, vals, ('object', None) if n else ('any', None))
    if kind == 'strarray':
        vals = [rand_text(rng, nul=True) for _ in range(n)]
        arr = np.array(vals, dtype=object) if n else np.empty(0, dtype=object)
        return DataSpec(arr, kind, vals, ('object', None) if n else ('any', None))
    if kind == 'tsarray':
        # a TimestampArray built by the caller (what raw_timestamps=True reads hand out), either field order
        from nptdms.timestamp import TimestampArray
        n = max(n, 1)
        vals = np.array([rand_dt(rng) for _ in range(n)], dtype='M8[us]')
        ticks = vals.astype('i8') - np.datetime64('1904-01-01T00:00:00', 'us').astype('i8')
        secs = [int(t) // 10 ** 6 for t in ticks.tolist()]
        fracs = [((int(t) % 10 ** 6) * 2 ** 64 + 10 ** 6 - 1) // 10 ** 6 + (4096 if int(t) % 10 ** 6 else 0) for t in ticks.tolist()]
        names = rng.choice([('second_fractions', 'seconds'), ('seconds', 'second_fractions')])
        a_ = np.zeros(n, dtype=[(nm, '<i8' if nm == 'seconds' else '<u8') for nm in names])
        a_['seconds'], a_['second_fractions'] = secs, fracs
        return DataSpec(TimestampArray(a_), kind, vals, ('exact', np.dtype('M8[us]')))
    if kind.startswith('dt64:'):
        unit = kind[5:]
        vals = np.array([rand_dt(rng) for _ in range(n)], dtype='M8[us]')
        if unit == 'ns':
            # datetime64[ns] only spans 1678..2262: keep the values inside
            lo, hi = np.datetime64('1700-01-01', 'us'), np.datetime64('2200-01-01', 'us')
            vals = np.array([v if lo < v < hi else np.datetime64('2001-02-03T04:05:06.789012', 'us') for v in vals], dtype='M8[us]')
        elif unit != 'us':
            vals = vals.astype('M8[%s]' % unit).astype('M8[us]')
        arr = vals.astype('M8[%s]' % unit)
        return DataSpec(arr, kind, vals, ('exact', np.dtype('M8[us]')) if n else ('any', None))
    if kind == 'pydtlist':
        vals = np.array([rand_dt(rng) for _ in range(n)], dtype='M8[us]')
        lst = [v.astype(datetime.datetime) for v in vals]
        if any(not isinstance(x, datetime.datetime) for x in lst):
            return DataSpec(vals, 'dt64:us', vals, ('exact', np.dtype('M8[us]')) if n else ('any', None))
        return DataSpec(lst, kind, vals, ('exact', np.dtype('M8[us]')) if n else ('any', None))
    raise ValueError(kind)


DATA_KINDS = (['np:' + d for d in NUM_DTYPES] * 2 + ['intlist:' + k for k in ('i8', 'u8', 'i16', 'u16', 'i32', 'u32', 'i64', 'u64')] +
              ['floatlist', 'strlist', 'strarray', 'strarray', 'dt64:us', 'dt64:ms', 'dt64:s', 'dt64:ns', 'dt64:D', 'pydtlist', 'tsarray'])


class Program(object):
    """sessions: [[segment, ...]]; segment: [objdesc]; objdesc: dict(kind root/group/channel, group, channel, props{name: PropSpec}, data DataSpec)"""
    def __init__(self):
        self.sessions = []
        self.version = 4712
        self.index = False          # False / True
        self.target = 'stream'      # 'stream' | 'path'
        self.reuse_objects = False  # one ChannelObject / GroupObject instance re-used with reassigned attributes
        self.precreate_empty = False  # path target: an empty file exists already and the first session appends to it
        self.relative = False       # path target: the file is named relative to the working directory, which changes between
        #                             creating the writer and entering its with-block
        self.container = 'list'     # how the objects of a segment are handed over: list | tuple | generator | iter
        self.mutate_after = False   # the caller empties its property dicts as soon as write_segment has returned
        self.fname = 'prog.tdms'    # path target: file name; the index file is documented to be <path>_index whatever the name
        self.source = None          # optional: channels of a file read with TdmsFile.read, passed on as TdmsGroup/TdmsChannel objects

    def describe(self):
        out = []
        for sess in self.sessions:
            so = []
            for seg in sess:
                so.append([(o['kind'], o.get('group'), o.get('channel'),
                            None if o.get('data') is None else (o['data'].kind, len(o['data'].expect)),
                            {k: (p.note, repr(p.value)[:40]) for k, p in (o.get('props') or {}).items()}) for o in seg])
            out.append(so)
        src = None if self.source is None else [(n, t, len(v)) for n, t, v in self.source['channels']]
        return {'version': self.version, 'index': self.index, 'target': self.target, 'sessions': out, 'source_file_channels': src,
                'reuse_objects': self.reuse_objects, 'precreate_empty': self.precreate_empty, 'file_name': self.fname,
                'container': self.container, 'mutate_after': self.mutate_after, 'relative_path': self.relative}


def gen_program(rng, types_mod, max_sessions=3, max_segments=5, max_objects=5, lens=(0, 1, 2, 3, 7, 20, 50)):
    prog = Program()
    prog.version = rng.choice([4712, 4713])
    prog.index = rng.random() < 0.5
    prog.target = rng.choice(['stream', 'path'])
    groups = [rand_name(rng) for _ in range(rng.randint(1, 3))]
    chan_kinds = {}
    if rng.random() < 0.3:
        prog.source = gen_source(rng)
    prog.reuse_objects = rng.random() < 0.2
    prog.precreate_empty = prog.target == 'path' and rng.random() < 0.25
    prog.container = rng.choice(['list', 'list', 'tuple', 'generator', 'iter'])
    prog.mutate_after = rng.random() < 0.3
    prog.relative = prog.target == 'path' and not prog.precreate_empty and rng.random() < 0.2
    prog.fname = rng.choice(['prog.tdms'] * 5 + ['PROG.TDMS', 'capture.dat', 'noextension', 'log.2024.tdms', 'a b.tdms', 'x.tdms.bak'])
    big_budget = [1] if rng.random() < 0.01 else []       # rarely: one array sized at a power-of-two byte boundary
    for _ in range(rng.randint(1, max_sessions)):
        sess = []
        for _ in range(rng.randint(1, max_segments)):
            seg, used = [], set()
            for _ in range(rng.randint(0, max_objects)):
                r = rng.random()
                props = None
                if rng.random() < 0.6:
                    props = {}
                    for _ in range(rng.randint(0, 4)):
                        props[rng.choice(['p', 'q', 'unit_string', 'é€', '', 'wf_start_time'])] = rand_prop(rng, types_mod)
                if prog.source is not None and r > 0.8:
                    # an object read from another TDMS file (documented input of write_segment)
                    if rng.random() < 0.3:
                        key = ('group', prog.source['group'])
                        o = {'kind': 'tdmsgroup', 'group': prog.source['group'], 'props': dict(prog.source['group_props'])}
                    else:
                        name, t, vals = rng.choice(prog.source['channels'])
                        key = ('chan', prog.source['group'], name)
                        o = {'kind': 'tdmschannel', 'group': prog.source['group'], 'channel': name, 'props': dict(prog.source['chan_props'][name]),
                             'data': source_dataspec(t, vals)}
                elif r < 0.12:
                    key, o = ('root',), {'kind': 'root', 'props': props}
                elif r < 0.3:
                    g = rng.choice(groups)
                    key, o = ('group', g), {'kind': 'group', 'group': g, 'props': props}
                else:
                    g = rng.choice(groups)
                    c = rng.choice(['c0', 'c1', rand_name(rng)])
                    kind = chan_kinds.setdefault((g, c), rng.choice(DATA_KINDS))
                    n_ = rng.choice(lens)
                    if rng.random() < 0.03:
                        n_ = rng.choice([1024, 2000, 5000])      # more than one I/O buffer (8 KiB) of raw data
                    if big_budget and kind.startswith('np:') and kind[3:] != '?':
                        big_budget.pop()
                        n_ = (2 ** 20) // np.dtype(kind[3:]).itemsize * rng.choice([1, 1, 2]) + rng.choice([0, 0, 1])
                    key, o = ('chan', g, c), {'kind': 'channel', 'group': g, 'channel': c, 'props': props,
                                              'data': rand_data(rng, kind, n_)}
                if key in used and rng.random() < 0.9:
                    continue          # duplicates are refused by the writer; keep a few to observe that
                used.add(key)
                seg.append(o)
            sess.append(seg)
        prog.sessions.append(sess)
    return prog


def gen_source(rng):
    """Content of a small source file whose TdmsGroup / TdmsChannel objects are handed to write_segment."""
    from . import model as M
    chans, cprops = [], {}
    for i in range(rng.randint(1, 3)):
        t = rng.choice(['i8', 'i32', 'u16', 'u64', 'f32', 'f64', 'f32u', 'bool', 'c64', 'str', 'ts', 'i64'])
        n = rng.choice([1, 2, 5])
        if t == 'str':
            vals = [rand_text(rng) for _ in range(n)]
        elif t == 'ts':
            vals = [rand_dt(rng) for _ in range(n)]
        else:
            vals = M.rand_values(rng, t, n)
        name = 's%d' % i
        chans.append((name, t, vals))
        cprops[name] = {'cp': PropSpec(1.5 + i, 10, 1.5 + i, 'float'), 'ci': PropSpec(2 ** 40 + i, 4, 2 ** 40 + i, 'int')}
    return {'group': 'from file ' + rand_name(rng), 'channels': chans, 'chan_props': cprops,
            'group_props': {'gp': PropSpec(7, 3, 7, 'int'), 'gs': PropSpec('src é', 0x20, 'src é', 'str')}}


def source_dataspec(t, vals):
    from . import model as M
    if t == 'str':
        return DataSpec(None, 'tdmschannel:str', list(vals), ('object', None))
    if t == 'ts':
        return DataSpec(None, 'tdmschannel:ts', np.array(vals, dtype='M8[us]'), ('exact', np.dtype('M8[us]')))
    dt = np.dtype(M.TYPES[t][1])
    return DataSpec(None, 'tdmschannel:' + t, np.asarray(vals, dtype=dt), ('exact', dt))


def build_source(prog, nptdms):
    """Encode the source content with the independent encoder and read it with TdmsFile.read."""
    import io
    import random
    from . import model as M
    src = prog.source
    us2frac = lambda us: (-((-us * 2 ** 64) // 10 ** 6) + 2 ** 14) if us else 0
    chans = []
    values = {}
    for name, t, vals in src['channels']:
        if t == 'ts':
            enc = []
            for v in vals:
                total = int(v.astype('int64')) + 2082844800 * 10 ** 6
                enc.append((total // 10 ** 6, us2frac(total % 10 ** 6)))
            values[M.qpath(src['group'], name)] = enc
        else:
            values[M.qpath(src['group'], name)] = vals
        props = [(k, {10: 'f64', 4: 'i64'}[p.code], p.value) for k, p in src['chan_props'][name].items()]
        chans.append((src['group'], name, t, len(vals), props))
    gprops = {src['group']: [('gp', 'i32', 7), ('gs', 'str', 'src é')]}
    segs = M.build_file(random.Random(0), chans, nseg=1, nchunks=(1,), group_props=gprops, values_fn=lambda p, t, n: values[p])
    # string totals are fixed by build_file as 7 bytes per value: re-derive them from the actual strings
    for s in segs:
        fixed = []
        for (p, hd, ix) in s.active:
            if ix is not None and ix[0] == 'str':
                ix = ('str', ix[1], M.str_total(values[p]))
            fixed.append((p, hd, ix))
        s.active = fixed
        s.listing = [(p, h, (('str', ix[1], M.str_total(values[p])) if (ix is not None and ix[0] == 'str') else ix)) for p, h, ix in s.listing]
    return nptdms.TdmsFile.read(io.BytesIO(M.encode_file(segs)[0]))


class Shadow(object):
    """What the accepted calls have written so far."""
    def __init__(self):
        self.data = {}        # (g, c) -> [DataSpec]
        self.props = {}       # path tuple () / (g,) / (g, c) -> {name: PropSpec}
        self.order = []       # object keys in first-appearance order
        self.groups_implied = set()

    def accept(self, seg):
        for o in seg:
            key = () if o['kind'] == 'root' else ((o['group'],) if o['kind'] in ('group', 'tdmsgroup') else (o['group'], o['channel']))
            if key not in self.order:
                self.order.append(key)
            for k, p in (o.get('props') or {}).items():
                self.props.setdefault(key, {})[k] = p
            if o['kind'] in ('channel', 'tdmschannel'):
                self.data.setdefault(key, []).append(o['data'])
                self.groups_implied.add(o['group'])


def run_program(prog, nptdms, tmpdir, stream_factory=io.BytesIO):
    """Execute the program against the real TdmsWriter.  -> (data bytes, index bytes|None, shadow, log)
       log: [(session, segment index, 'accepted' | 'refused:<ExcType>')]"""
    W = nptdms.TdmsWriter
    shadow, log = Shadow(), []
    for stale in os.listdir(tmpdir):
        if os.path.isfile(os.path.join(tmpdir, stale)):
            os.remove(os.path.join(tmpdir, stale))      # nothing of an earlier program is left: an index found later was written by this one
    path = os.path.join(tmpdir, getattr(prog, 'fname', 'prog.tdms'))
    relative = getattr(prog, 'relative', False) and prog.target == 'path'
    if relative:
        import shutil
        dir_a, dir_b = os.path.join(tmpdir, 'wd-a'), os.path.join(tmpdir, 'wd-b')
        for d_ in (dir_a, dir_b):
            shutil.rmtree(d_, ignore_errors=True)
            os.makedirs(d_)
        cwd0 = os.getcwd()
    if prog.precreate_empty and prog.target == 'path':
        open(path, 'wb').close()
        if prog.index:
            open(path + '_index', 'wb').close()
    held = {}
    stream = stream_factory()
    istream = stream_factory() if prog.index else None
    source = build_source(prog, nptdms) if prog.source is not None else None
    for si, sess in enumerate(prog.sessions):
        if relative:
            # the writer is created in one working directory and opened in another: data and index file belong together
            try:
                os.chdir(dir_a)
                w = W(prog.fname, mode='w' if si == 0 else 'a', version=prog.version, index_file=bool(prog.index))
                os.chdir(dir_b)
                w.__enter__()
                w.__exit__(None, None, None)
            finally:
                os.chdir(cwd0)
            where = [d_ for d_ in (dir_a, dir_b) if os.path.exists(os.path.join(d_, prog.fname))]
            if len(where) != 1 or (prog.index and not os.path.exists(os.path.join(where[0], prog.fname + '_index'))) or \
                    any(os.path.exists(os.path.join(d_, prog.fname + '_index')) for d_ in (dir_a, dir_b) if d_ not in where):
                log.append((si, None, 'data-and-index-file-in-different-directories'))
            path = os.path.join(where[0], prog.fname) if where else path
            w = W(path, mode='a', version=prog.version, index_file=bool(prog.index))
        elif prog.target == 'path':
            w = W(path, mode='w' if (si == 0 and not prog.precreate_empty) else 'a', version=prog.version, index_file=bool(prog.index))
        else:
            w = W(stream, version=prog.version, index_file=istream if prog.index else False)
        repair = None
        with w:
            for gi, seg in enumerate(sess):
                objs = []
                for o in seg:
                    props = None if o.get('props') is None else {k: p.value for k, p in o['props'].items()}
                    if o['kind'] == 'root':
                        objs.append(nptdms.RootObject(props))
                    elif o['kind'] == 'tdmsgroup':
                        objs.append(source[o['group']])
                    elif o['kind'] == 'tdmschannel':
                        objs.append(source[o['group']][o['channel']])
                    elif o['kind'] == 'group':
                        if prog.reuse_objects and 'g' in held and not any(x is held['g'] for x in objs):
                            held['g'].group, held['g'].properties = o['group'], props
                            objs.append(held['g'])
                        else:
                            held['g'] = nptdms.GroupObject(o['group'], props)
                            objs.append(held['g'])
                    else:
                        if prog.reuse_objects and 'c' in held and not any(x is held['c'] for x in objs):
                            co = held['c']
                            co.group, co.channel, co.properties = o['group'], o['channel'], props
                            # the data attribute is normalised by the constructor: take it from a throw-away object
                            fresh = nptdms.ChannelObject('x', 'y', o['data'].data).data
                            if (isinstance(co.data, np.ndarray) and co.data.dtype == object and isinstance(fresh, np.ndarray) and fresh.dtype == object
                                    and len(fresh) == len(co.data) and co.data.flags.writeable):
                                co.data[:] = fresh           # the caller refills its own array in place
                            else:
                                co.data = fresh
                            objs.append(co)
                        else:
                            held['c'] = nptdms.ChannelObject(o['group'], o['channel'], o['data'].data, props)
                            objs.append(held['c'])
                if prog.target == 'stream':
                    before = (stream.tell(), istream.tell() if istream is not None else None)
                else:
                    before = (w._file.tell(), w._index_file.tell() if w._index_file is not None else None)
                inputs = [(o['data'].kind, o['data'].data, o['data'].digest[0], o['data'].digest[1]) for o in seg
                          if o.get('data') is not None and getattr(o['data'], 'digest', None) is not None]
                handed = {'list': lambda x: x, 'tuple': tuple, 'generator': lambda x: (y for y in x), 'iter': iter}[getattr(prog, 'container', 'list')](objs)
                try:
                    w.write_segment(handed)
                    for kind_, arr_, before_, dts_ in inputs:
                        if arr_.tobytes() != before_ or arr_.dtype.str != dts_:
                            log.append((si, gi, 'input-array-modified:' + kind_))
                    if getattr(prog, 'mutate_after', False):
                        for ob_ in objs:
                            pr_ = getattr(ob_, 'properties', None)
                            if isinstance(pr_, dict) and not type(ob_).__module__.startswith('nptdms.tdms'):
                                pr_.clear()
                except Exception as ex:
                    log.append((si, gi, 'refused:' + type(ex).__name__))
                    # a refused call must not leave partial bytes behind for the next accepted call to build on
                    if prog.target == 'stream':
                        stream.seek(before[0])
                        stream.truncate()
                        if istream is not None:
                            istream.seek(before[1])
                            istream.truncate()
                        continue
                    repair = before
                    break
                log.append((si, gi, 'accepted'))
                shadow.accept(seg)
        if repair is not None:
            # path-backed file: cut off whatever the refused call wrote and stop the program here
            os.truncate(path, repair[0])
            if repair[1] is not None:
                os.truncate(path + '_index', repair[1])
            log.append((si, None, 'abandoned-after-refusal'))
            break
    prog.result_path = path
    return _result(prog, path, stream, istream, shadow, log)


def _result(prog, path, stream, istream, shadow, log):
    if prog.target == 'path':
        with open(path, 'rb') as f:
            data = f.read()
        idx = None
        if prog.index and os.path.exists(path + '_index'):
            with open(path + '_index', 'rb') as f:
                idx = f.read()
    else:
        data = stream.getvalue()
        idx = istream.getvalue() if istream is not None else None
    return data, idx, shadow, log
