"""Reach recorder: sys.monitoring LINE events restricted (set_local_events) to the code objects of
the anchored functions.  Reports which statement lines of those functions were executed, so a run
that never drove a deciding branch is visible (and can be declared inconclusive)."""
import sys
import dis

import ast
import inspect
import textwrap


def _raise_lines(f):
    out = set()
    try:
        src, first = inspect.getsourcelines(f)
        tree = ast.parse(textwrap.dedent(''.join(src)))
        for node in ast.walk(tree):
            if isinstance(node, ast.Raise):
                for ln in range(node.lineno, (node.end_lineno or node.lineno) + 1):
                    out.add(first + ln - 1)
    except (OSError, SyntaxError, TypeError):
        pass
    return out


TOOL = 3  # a free sys.monitoring tool id (0-5; 0 debugger, 1 coverage, 2 profiler by convention)


class Reach(object):
    def __init__(self, funcs, ignore_raise=False):
        """funcs: {label: function-or-method}; ignore_raise: lines of `raise` statements are not required"""
        self.codes = {}
        self.lines = {}
        self.hit = {}
        for label, f in funcs.items():
            f = getattr(f, '__wrapped__', f)
            f = getattr(f, '__func__', f)
            code = f.__code__
            self.codes[code] = label
            ls = {ln for (_, _, ln) in code.co_lines() if ln is not None and ln != code.co_firstlineno}
            if ignore_raise:
                ls -= _raise_lines(f)
            self.lines[label] = ls
            self.hit[label] = set()
        self.active = False

    def start(self):
        mon = sys.monitoring
        try:
            mon.use_tool_id(TOOL, 'verif-reach')
        except ValueError:
            pass
        mon.register_callback(TOOL, mon.events.LINE, self._on_line)
        for code in self.codes:
            mon.set_local_events(TOOL, code, mon.events.LINE)
        self.active = True

    def _on_line(self, code, line):
        label = self.codes.get(code)
        if label is not None:
            self.hit[label].add(line)
        return sys.monitoring.DISABLE   # each line location reports once: near-zero steady-state cost

    def stop(self):
        if not self.active:
            return
        mon = sys.monitoring
        for code in self.codes:
            mon.set_local_events(TOOL, code, 0)
        mon.register_callback(TOOL, mon.events.LINE, None)
        try:
            mon.free_tool_id(TOOL)
        except ValueError:
            pass
        self.active = False

    def report(self, ctx):
        for label, ls in self.lines.items():
            for ln in ls:
                ctx.cell('reachable:%s:%d' % (label, ln))
            for ln in self.hit[label]:
                ctx.cell('reach:%s:%d' % (label, ln))


def unreached(cells):
    """-> {label: [lines never reached]} from merged cell counters."""
    reachable, hit = {}, {}
    for k in cells:
        parts = k.split(':')
        if parts[0] == 'reachable':
            reachable.setdefault(parts[1], set()).add(int(parts[2]))
        elif parts[0] == 'reach':
            hit.setdefault(parts[1], set()).add(int(parts[2]))
    return {lab: sorted(ls - hit.get(lab, set())) for lab, ls in reachable.items()}


def summary(cells):
    reachable, hit = {}, {}
    for k in cells:
        parts = k.split(':')
        if parts[0] == 'reachable':
            reachable.setdefault(parts[1], set()).add(int(parts[2]))
        elif parts[0] == 'reach':
            hit.setdefault(parts[1], set()).add(int(parts[2]))
    return {lab: '%d/%d lines' % (len(hit.get(lab, ())), len(ls)) for lab, ls in sorted(reachable.items())}
