"""NI_Scale property builders, random scale-graph generator and an independent dataflow evaluator."""
import bisect
import math
import numpy as np

RAW = 0xFFFFFFFF
STRUCTURAL = ['Linear', 'Polynomial', 'Table', 'Add', 'Subtract', 'AdvancedAPI']


def P(i, suffix):
    return 'NI_Scale[%d]_%s' % (i, suffix)


def scale_props(i, sc):
    """Property list [(name, ptype, value)] for one scale description dict."""
    k = sc['kind']
    out = [(P(i, 'Scale_Type'), 'str', k)]

    def src(prefix):
        if sc.get('src') is not None or prefix in ('RTD', 'Thermistor', 'Strain'):
            out.append((P(i, prefix + '_Input_Source'), 'u32', sc.get('src', RAW)))
    if k == 'Linear':
        out += [(P(i, 'Linear_Slope'), 'f64', sc['slope']), (P(i, 'Linear_Y_Intercept'), 'f64', sc['intercept'])]
        src('Linear')
    elif k == 'Polynomial':
        if sc.get('size_prop', True):
            out.append((P(i, 'Polynomial_Coefficients_Size'), 'u32', len(sc['coeffs'])))
        out += [(P(i, 'Polynomial_Coefficients[%d]' % j), 'f64', c) for j, c in enumerate(sc['coeffs'])]
        src('Polynomial')
    elif k == 'Table':
        out += [(P(i, 'Table_Pre_Scaled_Values_Size'), 'u32', len(sc['pre'])), (P(i, 'Table_Scaled_Values_Size'), 'u32', len(sc['scaled']))]
        out += [(P(i, 'Table_Pre_Scaled_Values[%d]' % j), 'f64', v) for j, v in enumerate(sc['pre'])]
        out += [(P(i, 'Table_Scaled_Values[%d]' % j), 'f64', v) for j, v in enumerate(sc['scaled'])]
        src('Table')
    elif k in ('Add', 'Subtract'):
        out += [(P(i, k + '_Left_Operand_Input_Source'), 'u32', sc['left']), (P(i, k + '_Right_Operand_Input_Source'), 'u32', sc['right'])]
    elif k == 'RTD':
        out += [(P(i, 'RTD_Current_Excitation'), 'f64', sc['current']), (P(i, 'RTD_R0_Nominal_Resistance'), 'f64', sc['r0']),
                (P(i, 'RTD_A'), 'f64', sc['a']), (P(i, 'RTD_B'), 'f64', sc['b']), (P(i, 'RTD_C'), 'f64', sc['c']),
                (P(i, 'RTD_Lead_Wire_Resistance'), 'f64', sc['lead']), (P(i, 'RTD_Resistance_Configuration'), 'u32', sc['config'])]
        src('RTD')
    elif k == 'Thermistor':
        out += [(P(i, 'Thermistor_Excitation_Type'), 'u32', sc['exc_type']), (P(i, 'Thermistor_Excitation_Value'), 'f64', sc['exc_value']),
                (P(i, 'Thermistor_Resistance_Configuration'), 'u32', sc['config']),
                (P(i, 'Thermistor_R1_Reference_Resistance'), 'f64', sc['r1']), (P(i, 'Thermistor_Lead_Wire_Resistance'), 'f64', sc['lead']),
                (P(i, 'Thermistor_A'), 'f64', sc['a']), (P(i, 'Thermistor_B'), 'f64', sc['b']), (P(i, 'Thermistor_C'), 'f64', sc['c']),
                (P(i, 'Thermistor_Temperature_Offset'), 'f64', sc['t_offset'])]
        src('Thermistor')
    elif k == 'Strain':
        out += [(P(i, 'Strain_Configuration'), 'u32', sc['config']), (P(i, 'Strain_Poisson_Ratio'), 'f64', sc['poisson']),
                (P(i, 'Strain_Gage_Resistance'), 'f64', sc['gage_r']), (P(i, 'Strain_Lead_Wire_Resistance'), 'f64', sc['lead']),
                (P(i, 'Strain_Initial_Bridge_Voltage'), 'f64', sc['v_init']), (P(i, 'Strain_Gage_Factor'), 'f64', sc['gf']),
                (P(i, 'Strain_Bridge_Shunt_Calibration_Gain_Adjustment'), 'f64', sc['gain']),
                (P(i, 'Strain_Voltage_Excitation'), 'f64', sc['v_ex'])]
        src('Strain')
    elif k == 'Thermocouple':
        out += [(P(i, 'Thermocouple_Thermocouple_Type'), 'u32', sc['tc_type']), (P(i, 'Thermocouple_Scaling_Direction'), 'u32', sc['direction'])]
        src('Thermocouple')
    elif k == 'AdvancedAPI':
        src('AdvancedAPI')
    else:
        raise ValueError(k)
    return out


def graph_props(scales, with_count=True, status=None):
    out = []
    if with_count:
        out.append(('NI_Number_Of_Scales', 'u32', len(scales)))
    if status is not None:
        out.append(('NI_Scaling_Status', 'str', status))
    for i, sc in enumerate(scales):
        out += scale_props(i, sc)
    return out


# --------------------------------------------------------------------------- generator
def rand_coeff(rng):
    return rng.choice([0.0, 1.0, -1.0, 0.5, 2.0, -3.25, 1e-3, 1e6, rng.uniform(-10, 10), rng.uniform(-1e-2, 1e-2)])


def gen_graph(rng, depth=None, kinds=STRUCTURAL, permute=True):
    """Random scale list; scale i may read the raw data or any earlier scale. The last one is the output."""
    n = depth or rng.randint(1, 5)
    scales = []
    for i in range(n):
        k = rng.choice(kinds)

        def pick():
            if i == 0 or rng.random() < 0.35:
                return RAW
            return rng.randrange(i)
        if k == 'Linear':
            sc = dict(kind=k, slope=rand_coeff(rng), intercept=rand_coeff(rng), src=pick())
            if sc['src'] == RAW and rng.random() < 0.3:
                sc['src'] = None     # property omitted -> raw data
        elif k == 'Polynomial':
            nc = rng.choice([0, 1, 2, 3, 4, 4, 6])
            sc = dict(kind=k, coeffs=[rand_coeff(rng) for _ in range(nc)], src=pick())
            if nc == 4 and rng.random() < 0.4:
                sc['size_prop'] = False   # default size 4
            if sc['src'] == RAW and rng.random() < 0.3:
                sc['src'] = None
        elif k == 'Table':
            m = rng.randint(2, 5)
            xs = sorted(set(round(rng.uniform(-50, 50), 3) for _ in range(m + 2)))[:m]
            if len(xs) < 2:
                xs = [-1.0, 1.0]
            ys = [rand_coeff(rng) for _ in xs]
            if rng.random() < 0.4:
                xs, ys = xs[::-1], ys[::-1]        # descending tables are legal
            # 'scaled' values are the interpolation inputs, 'pre-scaled' the outputs
            sc = dict(kind=k, scaled=xs, pre=ys, src=pick())
            if sc['src'] == RAW and rng.random() < 0.3:
                sc['src'] = None
        elif k == 'AdvancedAPI':
            sc = dict(kind=k, src=pick())          # passes its input through
            if sc['src'] == RAW and rng.random() < 0.5:
                sc['src'] = None
        else:
            sc = dict(kind=k, left=pick(), right=pick())
        scales.append(sc)
    if permute and n >= 3 and rng.random() < 0.25:
        # the statement does not require topological order: renumber all scales but the output, so that some scale
        # reads a higher-numbered one (the graph stays acyclic)
        order = list(range(n - 1))
        rng.shuffle(order)
        newpos = {old: new for new, old in enumerate(order)}
        newpos[n - 1] = n - 1
        out = [None] * n
        for old, sc in enumerate(scales):
            sc = dict(sc)
            for key in ('src', 'left', 'right'):
                if key in sc and sc[key] is not None and sc[key] != RAW:
                    sc[key] = newpos[sc[key]]
            out[newpos[old]] = sc
        scales = out
    return scales


# --------------------------------------------------------------------------- evaluator
def _f64(x):
    return np.asarray(x).astype(np.float64)


def evaluate(scales, raw, index=None, memo=None):
    """Independent dataflow evaluation (float64 arithmetic, formulas of the NI scale types)."""
    if index is None:
        index = len(scales) - 1
    if index == RAW or index is None:
        return np.asarray(raw)
    memo = {} if memo is None else memo
    if index in memo:
        return memo[index]
    sc = scales[index]
    k = sc['kind']
    if k in ('Add', 'Subtract'):
        left = evaluate(scales, raw, sc['left'], memo)
        right = evaluate(scales, raw, sc['right'], memo)
        res = (left + right) if k == 'Add' else (right - left)   # Subtract: right minus left (documented convention)
    else:
        src = sc.get('src')
        x = evaluate(scales, raw, RAW if src is None else src, memo)
        if k == 'Linear':
            res = _f64(x) * sc['slope'] + sc['intercept']
        elif k == 'Polynomial':
            xs = _f64(x)
            res = np.zeros(len(xs), dtype=np.float64)
            for c in reversed(sc['coeffs']):
                res = res * xs + c
        elif k == 'Table':
            res = table_interp(_f64(x), sc['scaled'], sc['pre'])
        elif k == 'AdvancedAPI':
            res = x
        else:
            raise ValueError(k)
    memo[index] = res
    return res


def table_interp(x, xs, ys):
    """Clamped piecewise-linear interpolation by bisection (xs ascending or descending)."""
    xs, ys = list(xs), list(ys)
    if xs[0] > xs[-1]:
        xs, ys = xs[::-1], ys[::-1]
    out = np.empty(len(x), dtype=np.float64)
    for i, v in enumerate(x.tolist()):
        if v != v:
            out[i] = float('nan')
        elif v <= xs[0]:
            out[i] = ys[0]
        elif v >= xs[-1]:
            out[i] = ys[-1]
        else:
            j = bisect.bisect_right(xs, v) - 1
            x0, x1, y0, y1 = xs[j], xs[j + 1], ys[j], ys[j + 1]
            out[i] = y0 + (y1 - y0) * ((v - x0) / (x1 - x0))
    return out


def poly_bound(scales, raw, memo=None):
    """Magnitude scale for the tolerance of a graph containing Polynomial/Table scales: sum |c_i||x|^i style bound,
    propagated through the graph (conservative)."""
    memo = {} if memo is None else dict(memo)

    def mag(index):
        if index == RAW or index is None:
            return np.abs(_f64(raw))
        if index in memo:
            return memo[index]
        sc = scales[index]
        k = sc['kind']
        if k in ('Add', 'Subtract'):
            r = mag(sc['left']) + mag(sc['right'])
        else:
            src = sc.get('src')
            x = mag(RAW if src is None else src)
            if k == 'Linear':
                r = x * abs(sc['slope']) + abs(sc['intercept'])
            elif k == 'Polynomial':
                r = np.zeros(len(x))
                for c in reversed(sc['coeffs']):
                    r = r * x + abs(c)
            elif k == 'Table':
                r = np.full(len(x), max(abs(v) for v in sc['pre']))
            else:
                r = x
        memo[index] = r
        return r
    return mag(len(scales) - 1)
