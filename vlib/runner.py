"""Shared harness: sharded execution, three-valued verdicts, evidence, replay files,
known-findings classification.

A check module (checks/cXX.py) provides
    ID, LEVEL, RULE, ASSUMPTIONS
    gen_cases(tier, seed)      -> iterator of small JSON-serialisable case dicts (deterministic)
    run_case(case, ctx)        -> executes the real code under the monitors; reports through ctx
    REQUIRED (optional)        -> counter names that must be > 0, else the run is inconclusive
    finalize(merged) (optional)-> list of further inconclusive reasons (e.g. empty coverage cells)
    EXHAUSTIVE (optional)      -> evidence 'exhaustive' flag per tier {tier: bool}
"""
import argparse
import collections
import hashlib
import importlib
import json
import os
import subprocess
import sys
import tempfile
import time
import traceback

VERIF = os.path.dirname(os.path.dirname(os.path.abspath(__file__)))
REPO = os.environ.get('VERIF_REPO', '/repo')
WORK = os.path.join(VERIF, '.work')
NSHARDS_DEFAULT = int(os.environ.get('VERIF_SHARDS', '16'))


def setup_paths():
    deps = os.path.join(VERIF, '.deps')
    for p in (deps, VERIF, REPO):
        if p in sys.path:
            sys.path.remove(p)
    sys.path.insert(0, deps)
    sys.path.insert(0, VERIF)
    sys.path.insert(0, REPO)
    import nptdms
    real = os.path.realpath(nptdms.__file__)
    if not real.startswith(os.path.realpath(REPO) + os.sep):
        raise SystemExit("harness error: nptdms imported from %s, not from %s" % (real, REPO))
    import logging
    import warnings
    from nptdms.log import log_manager
    log_manager.set_level(logging.CRITICAL)
    warnings.simplefilter('ignore')
    os.environ.setdefault(os.environ.get('VERIF_GUARD_NAME', 'NPTDMS_VERIF'), '1')


def _sig_hash(sig):
    return hashlib.blake2b(repr(sig).encode('utf-8', 'backslashreplace'), digest_size=8).hexdigest()


def jsonable(x, depth=0):
    """Best-effort conversion of witnesses to JSON (never raises)."""
    try:
        import numpy as np
    except Exception:  # pragma: no cover
        np = None
    if depth > 6:
        return repr(x)[:200]
    if x is None or isinstance(x, (bool, int, str)):
        return x if not isinstance(x, str) else x[:2000]
    if isinstance(x, float):
        return x if x == x and abs(x) != float('inf') else repr(x)
    if isinstance(x, bytes):
        return {'hex': x.hex()} if len(x) <= 4096 else {'hex_prefix': x[:4096].hex(), 'len': len(x)}
    if isinstance(x, dict):
        return {str(k): jsonable(v, depth + 1) for k, v in list(x.items())[:200]}
    if isinstance(x, (list, tuple, set, frozenset)):
        return [jsonable(v, depth + 1) for v in list(x)[:200]]
    if np is not None:
        if isinstance(x, np.ndarray):
            return {'dtype': str(x.dtype), 'n': int(x.size), 'head': repr(x[:8].tolist() if x.dtype != object else list(x[:8]))[:400]}
        if isinstance(x, np.generic):
            return repr(x)
    return repr(x)[:400]


class Ctx(object):
    """Per-shard (or per-replay) recorder."""

    MAX_VIOL_PER_MECH = 3

    def __init__(self, tier, seed, shard=0, nshards=1):
        self.tier = tier
        self.seed = seed
        self.shard = shard
        self.nshards = nshards
        self.evaluations = 0
        self.counters = collections.Counter()
        self.sigs = set()
        self.samples = []
        self.violations = []           # kept witnesses
        self.viol_counts = collections.Counter()   # mechanism -> count
        self.cells = collections.Counter()         # coverage cells
        self.current_case = None

    # -- coverage -----------------------------------------------------------------
    def evaluation(self, n=1):
        self.evaluations += n

    def distinct(self, sig):
        """Register a non-trivial case by its shape signature."""
        self.sigs.add(_sig_hash(sig))

    def count(self, key, n=1):
        self.counters[key] += n

    def cell(self, key, n=1):
        self.cells[str(key)] += n

    def sample(self, obj, limit=4):
        if len(self.samples) < limit:
            self.samples.append(jsonable(obj))

    # -- verdicts -----------------------------------------------------------------
    def violation(self, mechanism, detail, case=None):
        """mechanism: deterministic key describing *how* it fails (never a seed or value)."""
        self.viol_counts[mechanism] += 1
        if self.viol_counts[mechanism] <= self.MAX_VIOL_PER_MECH:
            self.violations.append({
                'mechanism': mechanism,
                'case': jsonable(case if case is not None else self.current_case),
                'detail': jsonable(detail),
            })

    def dump(self):
        return {
            'evaluations': self.evaluations,
            'counters': dict(self.counters),
            'cells': dict(self.cells),
            'sigs': sorted(self.sigs),
            'samples': self.samples,
            'violations': self.violations,
            'viol_counts': dict(self.viol_counts),
        }


def load_check(pid):
    return importlib.import_module('checks.' + pid.lower())


def run_child(args):
    setup_paths()
    mod = load_check(args.id)
    ctx = Ctx(args.tier, args.seed, args.shard, args.nshards)
    t0 = time.time()
    status = 'ok'
    err = None
    try:
        if hasattr(mod, 'shard_setup'):
            mod.shard_setup(ctx)
        for i, case in enumerate(mod.gen_cases(args.tier, args.seed)):
            if i % args.nshards != args.shard:
                continue
            ctx.current_case = case
            try:
                mod.run_case(case, ctx)
            except Exception as ex:
                from vlib import util
                key = util.exc_key(ex)
                if not key.endswith('@?'):
                    # raised inside library code while the harness was merely using a returned object
                    ctx.violation('unhandled-library-exception/%s' % key, {'exc': util.exc_detail(ex)})
                    continue
                # a harness crash is never a verdict on the library
                status = 'harness-error'
                err = 'case %r: %s' % (case, traceback.format_exc()[-3000:])
                break
        if hasattr(mod, 'shard_teardown'):
            mod.shard_teardown(ctx)
    except Exception:
        status = 'harness-error'
        err = traceback.format_exc()[-3000:]
    out = ctx.dump()
    out['status'] = status
    out['error'] = err
    out['wall_s'] = time.time() - t0
    with open(args.out, 'w') as f:
        json.dump(out, f)
    return 0


def load_known():
    path = os.path.join(VERIF, 'known_findings.json')
    known, fixed = {}, {}
    if os.path.exists(path):
        with open(path) as f:
            data = json.load(f)
        for ent in data.get('findings', []):
            key = (ent['property'], ent['mechanism'])
            if ent.get('status') == 'known':
                known[key] = ent
            else:
                fixed[key] = ent
    return known, fixed


def watchdog_s(tier):
    env = os.environ.get('VERIF_WATCHDOG_S')
    if env:
        return float(env)
    return 900.0 if tier == 'quick' else 4 * 3600.0


def run_parent(args):
    setup_paths()
    mod = load_check(args.id)
    pid = mod.ID
    os.makedirs(WORK, exist_ok=True)
    os.makedirs(os.path.join(VERIF, 'evidence'), exist_ok=True)
    replay_dir = os.path.join(WORK, 'replays')
    os.makedirs(replay_dir, exist_ok=True)
    nshards = getattr(mod, 'NSHARDS', {}).get(args.tier, NSHARDS_DEFAULT) if isinstance(
        getattr(mod, 'NSHARDS', None), dict) else NSHARDS_DEFAULT
    nshards = max(1, min(nshards, NSHARDS_DEFAULT))
    t0 = time.time()
    tmpdir = tempfile.mkdtemp(prefix='verif-%s-' % pid, dir=WORK)
    procs = []
    env = dict(os.environ)
    env['PYTHONHASHSEED'] = '0'
    env['PYTHONDONTWRITEBYTECODE'] = '1'
    env['VERIF_REPO'] = REPO
    env.setdefault('OMP_NUM_THREADS', '1')
    env.setdefault('OPENBLAS_NUM_THREADS', '1')
    for s in range(nshards):
        out = os.path.join(tmpdir, 'shard%d.json' % s)
        log = open(os.path.join(tmpdir, 'shard%d.log' % s), 'w')
        p = subprocess.Popen(
            [sys.executable, '-m', 'vlib.runner', '--child', pid, '--tier', args.tier,
             '--seed', str(args.seed), '--shard', str(s), '--nshards', str(nshards), '--out', out],
            cwd=VERIF, env=env, stdout=log, stderr=subprocess.STDOUT)
        procs.append((p, out, log))
    deadline = t0 + watchdog_s(args.tier)
    inconclusive = []
    merged = {
        'evaluations': 0, 'counters': collections.Counter(), 'cells': collections.Counter(),
        'sigs': set(), 'samples': [], 'violations': [], 'viol_counts': collections.Counter()}
    for s, (p, out, log) in enumerate(procs):
        try:
            p.wait(timeout=max(1.0, deadline - time.time()))
        except subprocess.TimeoutExpired:
            p.kill()
            p.wait()
            inconclusive.append('shard %d hit the watchdog' % s)
        log.close()
        if not os.path.exists(out):
            if not any(r.startswith('shard %d ' % s) for r in inconclusive):
                tail = open(log.name).read()[-1500:]
                inconclusive.append('shard %d died without a result (rc=%s): %s' % (s, p.returncode, tail))
            continue
        with open(out) as f:
            d = json.load(f)
        if d['status'] != 'ok':
            inconclusive.append('shard %d harness error: %s' % (s, d['error']))
        merged['evaluations'] += d['evaluations']
        merged['counters'].update(d['counters'])
        merged['cells'].update(d['cells'])
        merged['sigs'].update(d['sigs'])
        if len(merged['samples']) < 6:
            merged['samples'].extend(d['samples'][:2])
        merged['violations'].extend(d['violations'])
        merged['viol_counts'].update(d['viol_counts'])
    try:
        import shutil
        shutil.rmtree(tmpdir)
    except OSError:
        pass

    # -- inconclusive conditions ------------------------------------------------------
    for key in getattr(mod, 'REQUIRED', ()):
        if merged['counters'].get(key, 0) <= 0:
            inconclusive.append('deciding counter %r was never incremented' % key)
    if hasattr(mod, 'finalize'):
        inconclusive.extend(mod.finalize(merged, args.tier) or [])
    if merged['evaluations'] == 0:
        inconclusive.append('no case was evaluated')

    # -- classify violations --------------------------------------------------------
    known, fixed = load_known()
    known_hit, unknown = collections.OrderedDict(), collections.OrderedDict()
    for mech, n in sorted(merged['viol_counts'].items()):
        if (pid, mech) in known:
            known_hit[mech] = n
        else:
            unknown[mech] = n
    lines = []
    for mech, n in known_hit.items():
        lines.append('KNOWN-FINDING: property=%s %s [%s; %d occurrences this run]' % (
            pid, known[(pid, mech)]['what'], mech, n))
    viol_lines = []
    seen = collections.Counter()
    for v in merged['violations']:
        mech = v['mechanism']
        if mech not in unknown:
            continue
        seen[mech] += 1
        if seen[mech] > 2:
            continue
        safe = ''.join(c if c.isalnum() else '_' for c in mech)[:60]
        rp = os.path.join(replay_dir, '%s-%s-%d.json' % (pid, safe, seen[mech]))
        with open(rp, 'w') as f:
            json.dump({'property': pid, 'tier': args.tier, 'seed': args.seed, 'mechanism': mech,
                       'case': v['case'], 'detail': v['detail']}, f, indent=1)
        viol_lines.append('VIOLATION property=%s replay=%s' % (pid, rp))
        viol_lines.append('  mechanism=%s occurrences=%d detail=%s' % (
            mech, unknown[mech], json.dumps(v['detail'])[:600]))

    # -- evidence ------------------------------------------------------------------
    wall = time.time() - t0
    exhaustive = bool(getattr(mod, 'EXHAUSTIVE', {}).get(args.tier, False))
    coverage = {
        'evaluations': int(merged['evaluations']),
        'distinct_nontrivial': len(merged['sigs']),
        'rule': mod.RULE,
        'samples': merged['samples'][:6] or [],
        'exhaustive': exhaustive,
        'monitor_counters': {k: int(v) for k, v in sorted(merged['counters'].items())},
        'coverage_cells': {k: int(v) for k, v in sorted(merged['cells'].items())},
        'violations_by_mechanism': {k: int(v) for k, v in sorted(merged['viol_counts'].items())},
        'known_findings_hit': list(known_hit),
        'inconclusive_reasons': inconclusive,
        'shards': nshards,
        'repo': REPO,
    }
    if hasattr(mod, 'evidence_extra'):
        coverage.update(mod.evidence_extra(merged, args.tier) or {})
    evidence = {
        'property_id': pid, 'tier': args.tier, 'seed': int(args.seed), 'level': mod.LEVEL,
        'coverage': coverage, 'assumptions': list(getattr(mod, 'ASSUMPTIONS', [])),
        'wall_s': round(wall, 3), 'violations': int(sum(unknown.values())),
    }
    ev_dir = os.path.join(VERIF, 'evidence')
    if os.path.realpath(REPO) != '/repo':
        # runs against a scratch copy (mutation self-test) never overwrite the real evidence
        ev_dir = os.path.join(WORK, 'evidence-scratch')
        os.makedirs(ev_dir, exist_ok=True)
    ev_path = os.path.join(ev_dir, '%s.json' % pid)
    with open(ev_path, 'w') as f:
        json.dump(evidence, f, indent=1, sort_keys=True)
        f.write('\n')
    try:
        import jsonschema
        with open('/root/.vp/EVIDENCE.schema.json') as f:
            schema = json.load(f)
        jsonschema.validate(evidence, schema)
    except ImportError:
        pass
    except FileNotFoundError:
        pass
    except Exception as ex:  # schema failure: the run cannot count as evidence
        inconclusive.append('evidence does not validate: %s' % str(ex)[:300])

    # -- report --------------------------------------------------------------------
    print('%s tier=%s seed=%d evaluations=%d distinct_nontrivial=%d wall=%.1fs shards=%d' % (
        pid, args.tier, args.seed, merged['evaluations'], len(merged['sigs']), wall, nshards))
    shown = sorted(merged['counters'].items())
    if shown:
        print('  monitors: ' + ', '.join('%s=%d' % kv for kv in shown[:40]))
    for ln in lines:
        print(ln)
    for r in inconclusive:
        print('INCONCLUSIVE property=%s reason=%s' % (pid, r.replace('\n', ' | ')[:1500]))
    if viol_lines:
        for ln in viol_lines:
            print(ln)
        return 1
    if inconclusive:
        return 2
    print('HELD property=%s on everything explored' % pid)
    return 0


def run_replay(args):
    setup_paths()
    mod = load_check(args.id)
    with open(args.replay) as f:
        rec = json.load(f)
    ctx = Ctx(rec.get('tier', 'quick'), rec.get('seed', 0))
    ctx.current_case = rec['case']
    if hasattr(mod, 'shard_setup'):
        mod.shard_setup(ctx)
    mod.run_case(rec['case'], ctx)
    known, _ = load_known()
    rc = 0
    for v in ctx.violations:
        if (mod.ID, v['mechanism']) in known:
            print('KNOWN-FINDING: property=%s %s [%s]' % (mod.ID, known[(mod.ID, v['mechanism'])]['what'], v['mechanism']))
        else:
            print('VIOLATION property=%s replay=%s' % (mod.ID, args.replay))
            print('  mechanism=%s detail=%s' % (v['mechanism'], json.dumps(v['detail'])[:2000]))
            rc = 1
    if not ctx.violations:
        print('replay: no violation reproduced')
    return rc


def main(argv=None):
    ap = argparse.ArgumentParser()
    ap.add_argument('id')
    ap.add_argument('--tier', default=os.environ.get('VERIF_TIER', 'quick'), choices=['quick', 'thorough'])
    ap.add_argument('--seed', type=int, default=int(os.environ.get('VERIF_SEED', '0') or 0))
    ap.add_argument('--replay')
    ap.add_argument('--child', action='store_true')
    ap.add_argument('--shard', type=int, default=0)
    ap.add_argument('--nshards', type=int, default=1)
    ap.add_argument('--out')
    args = ap.parse_args(argv)
    args.id = args.id.upper()
    if args.child:
        return run_child(args)
    if args.replay:
        return run_replay(args)
    return run_parent(args)


if __name__ == '__main__':
    sys.exit(main())
