"""Online contracts attached from the harness to the real nptdms classes (no repository edit).

icontract pre/post-conditions with named condition functions and an explicit error class.
Every condition counts its evaluations; a check whose contract counters stay at zero is
inconclusive (it would mean the library bound the functions before we decorated them).
"""
import collections
import icontract

EVALS = collections.Counter()
_installed = False


class ContractBroken(AssertionError):
    """A monitor-side contract on a library function was violated."""
    def __init__(self, msg=''):
        AssertionError.__init__(self, msg)


def _e_fits(self, new_data):
    return ContractBroken('%s written past its allocation (position=%d, +%d, allocated=%d)' % (
        type(self).__name__, self._data_insert_position, len(new_data), len(self.data)))


def _e_scaler_fits(self, scale_id, new_data):
    return ContractBroken('DaqmxDataReceiver written past its allocation (scaler=%s, position=%d, +%d, allocated=%d)' % (
        scale_id, self._scaler_insert_positions[scale_id], len(new_data), len(self.scaler_data[scale_id])))


def _e_lazy_full(self, offset, length):
    return ContractBroken('windowed read left its receiver partly filled (offset=%s, length=%s, len=%d)' % (offset, length, len(self)))


def _e_lazy_len(self, offset, length):
    return ContractBroken('windowed read delivered a different number of values than requested (offset=%s, length=%s, len=%d)' % (
        offset, length, len(self)))


def _e_eager_full(self):
    return ContractBroken('eager read left a receiver partly filled')


def _e_chunks(self):
    return ContractBroken('chunk count does not account for the segment data size (num_chunks=%s, chunk=%s, total=%s)' % (
        self.num_chunks, self._get_chunk_size(), self.next_segment_pos - self.data_position))


# ---- receivers: never written past their allocation ------------------------------------
def _fits(self, new_data):
    EVALS['receiver.append_data'] += 1
    return self._data_insert_position + len(new_data) <= len(self.data)


def _scaler_fits(self, scale_id, new_data):
    EVALS['receiver.append_scaler_data'] += 1
    return self._scaler_insert_positions[scale_id] + len(new_data) <= len(self.scaler_data[scale_id])


def receiver_full(r):
    """A receiver handed back after a complete read must be exactly full."""
    if r is None:
        return True
    if hasattr(r, '_data_insert_position'):
        return r._data_insert_position == len(r.data)
    if hasattr(r, '_scaler_insert_positions'):
        return all(pos == len(r.scaler_data[k]) for k, pos in r._scaler_insert_positions.items())
    return True


def _lazy_read_full(self, result):
    EVALS['channel._read_channel_data'] += 1
    return receiver_full(result)


def _lazy_read_len(self, offset, length, result):
    """The receiver was allocated for exactly the requested window."""
    EVALS['channel._read_channel_data.len'] += 1
    if result is None:
        return True
    n = len(self)
    want = max(0, (n - offset) if length is None else min(length, n - offset))
    if hasattr(result, '_scaler_insert_positions'):
        return all(len(a) == want for a in result.scaler_data.values())
    if hasattr(result, '_data_insert_position'):
        return len(result.data) == want
    return len(result.data) == want   # ListDataReceiver: values delivered == values requested


def _eager_all_full(self, result):
    EVALS['file._read_data'] += 1
    return all(receiver_full(r) for r in self._channel_data.values())


# ---- chunk accounting -------------------------------------------------------------------
def _chunks_account(self, result):
    EVALS['segment._calculate_chunks'] += 1
    total = self.next_segment_pos - self.data_position
    size = self._get_chunk_size()
    if size == 0:
        return self.num_chunks == 0 and total == 0
    if self.final_chunk_lengths_override is None:
        return self.num_chunks * size == total
    return (self.num_chunks - 1) * size < total < self.num_chunks * size


def install():
    """Decorate the real classes in place (idempotent)."""
    global _installed
    if _installed:
        return
    import nptdms.channel_data as cd
    import nptdms.tdms as tdms
    import nptdms.tdms_segment as ts

    cd.NumpyDataReceiver.append_data = icontract.require(
        _fits, error=_e_fits)(cd.NumpyDataReceiver.append_data)
    cd.TimestampDataReceiver.append_data = icontract.require(
        _fits, error=_e_fits)(cd.TimestampDataReceiver.append_data)
    cd.DaqmxDataReceiver.append_scaler_data = icontract.require(
        _scaler_fits, error=_e_scaler_fits)(cd.DaqmxDataReceiver.append_scaler_data)
    f = tdms.TdmsChannel._read_channel_data
    f = icontract.ensure(_lazy_read_full, error=_e_lazy_full)(f)
    f = icontract.ensure(_lazy_read_len, error=_e_lazy_len)(f)
    tdms.TdmsChannel._read_channel_data = f
    tdms.TdmsFile._read_data = icontract.ensure(
        _eager_all_full, error=_e_eager_full)(tdms.TdmsFile._read_data)
    ts.TdmsSegment._calculate_chunks = icontract.ensure(
        _chunks_account, error=_e_chunks)(ts.TdmsSegment._calculate_chunks)
    _installed = True


def drain(ctx):
    """Move evaluation counters into the shard context."""
    for k, v in EVALS.items():
        ctx.count('contract:' + k, v)
    EVALS.clear()
