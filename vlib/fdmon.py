"""Descriptor / audit monitor (the Python analogue of a leak sanitizer).

* sys.addaudithook logs every 'open' event whose path lies under the watched directory
* /proc/self/fd snapshots tell which descriptors resolve to watched paths right now
* ResourceWarning is switched on and captured (unclosed file objects finalised by refcount/gc)
"""
import gc
import os
import sys
import warnings

_state = {'dir': None, 'opens': [], 'installed': False, 'warnings': []}


def _hook(event, args):
    if event == 'open' and _state['dir'] is not None:
        try:
            p = args[0]
            if isinstance(p, bytes):
                p = p.decode('utf-8', 'replace')
            if isinstance(p, str) and p.startswith(_state['dir']):
                _state['opens'].append(p)
        except Exception:
            pass


def install(watch_dir):
    _state['dir'] = os.path.realpath(watch_dir)
    if not _state['installed']:
        sys.addaudithook(_hook)
        _state['installed'] = True
        warnings.filterwarnings('always', category=ResourceWarning)
        orig = warnings.showwarning

        def show(message, category, filename, lineno, file=None, line=None):
            if issubclass(category, ResourceWarning):
                _state['warnings'].append(str(message))
        warnings.showwarning = show


def open_fds():
    """{fd: resolved path} for descriptors pointing into the watched directory."""
    out = {}
    for name in os.listdir('/proc/self/fd'):
        try:
            target = os.readlink('/proc/self/fd/' + name)
        except OSError:
            continue
        if target.startswith(_state['dir']):
            out[int(name)] = target
    return out


def take_opens():
    o = _state['opens'][:]
    del _state['opens'][:]
    return o


def take_warnings():
    w = _state['warnings'][:]
    del _state['warnings'][:]
    return w


class NoGC(object):
    def __enter__(self):
        self.was = gc.isenabled()
        gc.disable()

    def __exit__(self, *a):
        if self.was:
            gc.enable()
        gc.collect()
