"""DAQmx raw-data file model, independent encoder and byte-level oracle.

Logical content: per segment, per chunk, per channel/scaler a vector of values; per raw buffer random
padding bytes.  encode() lays every chunk out as buffer after buffer, each buffer as rows of `width`
bytes with every scaler's field at its declared byte offset (digital lines: bit (offset % 8) of the integer read at byte offset // 8 with the declared type and byte order)."""
import struct
import numpy as np
from .model import TOC, enc_str, rand_bytes, qpath

# DAQmx scaler type code -> (numpy dtype, size, TDMS type code of a typed channel)
DQ = {0: ('u1', 1, 5), 1: ('i1', 1, 1), 2: ('u2', 2, 6), 3: ('i2', 2, 2), 4: ('u4', 4, 7), 5: ('i4', 4, 3),
      6: ('u8', 8, 8), 7: ('i8', 8, 4), 8: ('f4', 4, 9), 9: ('f8', 8, 10)}
TDS_NAME = {5: 'Uint8', 1: 'Int8', 6: 'Uint16', 2: 'Int16', 7: 'Uint32', 3: 'Int32', 8: 'Uint64', 4: 'Int64',
            9: 'SingleFloat', 10: 'DoubleFloat'}


class DaqFile(object):
    """chans: [dict(name, group, raw(bool), n, scalers=[dict(t, buf, off | bit, id)])]
       widths, buflen: per raw buffer; digital: bool
       segs: [dict(endian, nchunks, meta in full/same/none, values={(chan, sid): [per chunk np arrays]}, pad=[per chunk per buffer bytes])]
    """
    def __init__(self):
        self.chans = []
        self.widths = []
        self.buflen = []
        self.digital = False
        self.segs = []
        self.props = {}
        self.extra_objects = []     # paths listed without data (root, group) in 'full' metadata

    @property
    def chunk_size(self):
        return sum(n * w for n, w in zip(self.buflen, self.widths))

    def seg_buflen(self, seg):
        """Rows per raw buffer in this segment: the channels switched off ('drop' segments) no longer contribute."""
        off = seg.get('inactive', set())
        out = [0] * len(self.widths)
        for ch in self.chans:
            if ch['name'] in off:
                continue
            for s in ch['scalers']:
                out[s['buf']] = max(out[s['buf']], ch['n'])
        return out

    def seg_chunk_size(self, seg):
        return sum(n * w for n, w in zip(self.seg_buflen(seg), self.widths))

    def path(self, ch):
        return qpath(ch['group'], ch['name'])

    def pos(self, seg, ch, sc):
        """Byte offset (or bit number for digital lines) of a scaler in the rows of its buffer, as declared for this segment:
        a later segment that restates the raw data index may lay the row out differently."""
        return (seg or {}).get('layout', {}).get((ch['name'], sc['id']), sc['bit'] if self.digital else sc['off'])

    # ------------------------------------------------------------------ encoding
    def _meta(self, e, kind, seg=None):
        if kind == 'drop':
            # channels listed without data (0xFFFFFFFF) in a segment that continues the object list
            names = sorted(seg['dropped_here'])
            out = [struct.pack(e + 'I', len(names))]
            for ch in self.chans:
                if ch['name'] in names:
                    out.append(enc_str(e, self.path(ch)) + struct.pack(e + 'II', 0xFFFFFFFF, 0))
            return b''.join(out)
        extra = self.extra_objects if kind in ('full', 'explicit') else []
        off = (seg or {}).get('inactive', set()) if kind == 'explicit' else set()
        chans = [ch for ch in self.chans if ch['name'] not in off]
        out = [struct.pack(e + 'I', len(chans) + len(extra))]
        for p in extra:
            out.append(enc_str(e, p) + struct.pack(e + 'II', 0xFFFFFFFF, 0))
        for ch in chans:
            out.append(enc_str(e, self.path(ch)))
            if kind == 'same':
                out.append(struct.pack(e + 'I', 0))
            else:
                out.append(struct.pack(e + 'I', 0x126A if self.digital else 0x1269))
                dt = 0xFFFFFFFF if ch['raw'] else DQ[ch['scalers'][0]['t']][2]
                out.append(struct.pack(e + 'IIQI', dt, 1, ch['n'], len(ch['scalers'])))
                for s in ch['scalers']:
                    if self.digital:
                        out.append(struct.pack(e + 'IIIBI', s['t'], s['buf'], self.pos(seg, ch, s), 0, s['id']))
                    else:
                        out.append(struct.pack(e + 'IIIII', s['t'], s['buf'], self.pos(seg, ch, s), 0, s['id']))
                out.append(struct.pack(e + 'I', len(self.widths)))
                out.extend(struct.pack(e + 'I', w) for w in self.widths)
            pl = self.props.get(self.path(ch), []) if kind in ('full', 'explicit') else []
            out.append(struct.pack(e + 'I', len(pl)))
            for name, code, payload_fn in pl:
                out.append(enc_str(e, name) + struct.pack(e + 'I', code) + payload_fn(e))
        return b''.join(out)

    def _chunk_bytes(self, seg, e, k):
        out = bytearray()
        off = seg.get('inactive', set())
        for b, (n, w) in enumerate(zip(self.seg_buflen(seg), self.widths)):
            buf = bytearray(seg['pad'][k][b])
            assert len(buf) == n * w
            for ch in self.chans:
                if ch['name'] in off:
                    continue
                for s in ch['scalers']:
                    if s['buf'] != b:
                        continue
                    vals = seg['values'][(ch['name'], s['id'])][k]
                    dt, size, _ = DQ[s['t']]
                    if self.digital:
                        byte, bit = self.pos(seg, ch, s) // 8, self.pos(seg, ch, s) % 8
                        if e == '>':
                            byte += size - 1          # the low-order byte of a big-endian field is its last byte
                        for r in range(n):
                            pos = r * w + byte
                            buf[pos] = (buf[pos] & ~(1 << bit) & 0xFF) | ((int(vals[r]) & 1) << bit)
                    else:
                        raw = np.asarray(vals, dtype=dt).astype(np.dtype(dt).newbyteorder(e)).tobytes()
                        for r in range(n):
                            pos = r * w + self.pos(seg, ch, s)
                            buf[pos:pos + size] = raw[r * size:(r + 1) * size]
            out += buf
        return bytes(out)

    def encode(self, endians=None, marker_last=False, explicit=False):
        """-> (data bytes, index bytes, layout [dict(start, data_start, end, nchunks)])
        explicit=True: every segment restates its object list in full (new object list, only the channels that have data
        in it, every raw data index written out) - the fully explicit encoding of the same content."""
        out, idx, lay = bytearray(), bytearray(), []
        for i, seg in enumerate(self.segs):
            e = (endians[i] if endians else seg['endian'])
            kind = 'explicit' if explicit else seg['meta']
            meta = b'' if kind == 'none' else self._meta(e, kind, seg)
            data = b''.join(self._chunk_bytes(seg, e, k) for k in range(seg['nchunks']))
            mask = (TOC['raw'] | TOC['daqmx'] | (TOC['meta'] if kind != 'none' else 0) |
                    (TOC['newobj'] if kind in ('full', 'explicit') else 0) | (TOC['big'] if e == '>' else 0))
            nxt = 0xFFFFFFFFFFFFFFFF if (marker_last and i == len(self.segs) - 1) else len(meta) + len(data)
            lead = struct.pack('<i', mask) + struct.pack(e + 'iQQ', 4713, nxt, len(meta))
            start = len(out)
            lay.append({'start': start, 'data_start': start + 28 + len(meta), 'end': start + 28 + len(meta) + len(data),
                        'nchunks': seg['nchunks']})
            out += b'TDSm' + lead + meta + data
            idx += b'TDSh' + lead + meta
        return bytes(out), bytes(idx), lay

    # ------------------------------------------------------------------ oracle
    def scaler_dtype(self, s):
        return np.dtype(DQ[s['t']][0])

    def expected(self, ch, s):
        """All values of one scaler over the whole file (bit values for digital lines)."""
        parts = [np.asarray(v, dtype=self.scaler_dtype(s)) for seg in self.segs if ch['name'] not in seg.get('inactive', set())
                 for v in seg['values'][(ch['name'], s['id'])]]
        if not parts:
            return np.zeros(0, dtype=self.scaler_dtype(s))
        return np.concatenate(parts)

    def rows_available(self, avail, buflen=None):
        """Complete rows per buffer in a chunk cut after `avail` bytes (buffers are laid out one after another)."""
        rows, rem = [], avail
        for n, w in zip(buflen if buflen is not None else self.buflen, self.widths):
            tot = n * w
            if rem >= tot:
                rows.append(n)
                rem -= tot
            else:
                rows.append(rem // w)
                rem = 0
        return rows

    def expected_len_after_cut(self, ch, lay, cut):
        """Number of values of a channel available in a file cut at byte `cut`: whole chunks + complete rows
        of the cut chunk (for scalers spread over several buffers: rows complete in all of them)."""
        total = 0
        for seg, l in zip(self.segs, lay):
            active = ch['name'] not in seg.get('inactive', set())
            if cut >= l['end']:
                total += ch['n'] * seg['nchunks'] if active else 0
                continue
            if cut <= l['data_start']:
                break
            avail = cut - l['data_start']
            cs = self.seg_chunk_size(seg)
            full, rem = divmod(avail, cs) if cs else (0, 0)
            rows = self.rows_available(rem, self.seg_buflen(seg))
            if active:
                total += full * ch['n'] + min(rows[s['buf']] for s in ch['scalers'])
            break
        return total

    def total_len(self, ch):
        return sum(ch['n'] * seg['nchunks'] for seg in self.segs if ch['name'] not in seg.get('inactive', set()))

    def describe(self):
        return {'digital': self.digital, 'widths': self.widths, 'buflen': self.buflen,
                'chans': [{'name': c['name'], 'raw': c['raw'], 'n': c['n'], 'scalers': c['scalers']} for c in self.chans],
                'segs': [(s['endian'], s['nchunks'], s['meta'], sorted(s.get('inactive', ())), sorted(s.get('layout', {}).items())) for s in self.segs]}

    def signature(self):
        return (self.digital, tuple(self.widths), tuple(self.buflen),
                tuple((c['raw'], tuple((s['t'], s['buf'], s.get('off', s.get('bit'))) for s in c['scalers'])) for c in self.chans),
                tuple((s['endian'], s['nchunks'], s['meta'], tuple(sorted(s.get('inactive', ())))) for s in self.segs))


def gen_daqmx(rng, max_chans=5, max_bufs=3, max_segs=3, allow_be=True, multi_buffer_channels=True, chunks=(1, 1, 2, 3, 4),
              lens=(1, 2, 3, 5), allow_drop=False, relayout=True):
    f = DaqFile()
    nbuf = rng.randint(1, max_bufs)
    nchan = rng.randint(1, max_chans)
    f.digital = rng.random() < 0.25
    endians = [rng.choice('<>') if allow_be else '<' for _ in range(rng.randint(1, max_segs))]
    all_le = all(e == '<' for e in endians)
    digital_type = rng.choice([0, 0, 2, 4])       # one sample type for all digital lines of a file (keeps their bits disjoint)
    buflen = [rng.choice(lens) for _ in range(nbuf)]
    used = [0] * nbuf
    bitused = [0] * nbuf
    for c in range(nchan):
        raw = f.digital or rng.random() < 0.7
        ns = rng.randint(1, 3) if raw else 1
        b0 = rng.randrange(nbuf)
        scalers = []
        for sidx in range(ns):
            b = b0
            if multi_buffer_channels and rng.random() < 0.2:
                b = rng.choice([i for i in range(nbuf) if buflen[i] == buflen[b0]])
            sid = sidx if rng.random() < 0.7 else sidx + 3 * (c + 1)
            if f.digital:
                tcode = digital_type
                bit = bitused[b] + rng.randint(0, 3)
                bitused[b] = bit + 1
                used[b] = max(used[b], bit // 8 + DQ[tcode][1])
                scalers.append(dict(t=tcode, buf=b, bit=bit, id=sid))
            else:
                tcode = rng.choice(list(DQ))
                size = DQ[tcode][1]
                off = used[b] + rng.choice([0, 0, 1, 3])
                used[b] = off + size
                scalers.append(dict(t=tcode, buf=b, off=off, id=sid))
        f.chans.append(dict(name='c%d' % c, group='G', raw=raw, scalers=scalers, n=buflen[b0]))
    f.widths = [max(1, used[i]) + rng.choice([0, 0, 2, 5]) for i in range(nbuf)]
    usedbuf = {s['buf'] for ch in f.chans for s in ch['scalers']}
    f.buflen = [buflen[i] if i in usedbuf else 0 for i in range(nbuf)]
    if rng.random() < 0.5:
        f.extra_objects = ['/', qpath('G')][:rng.randint(1, 2)]
    inactive = set()
    for si, e in enumerate(endians):
        nch = rng.choice(chunks)
        kind = 'full' if si == 0 else rng.choice(['none', 'same', 'full', 'drop'] if allow_drop else ['none', 'same', 'full'])
        seg = {'endian': e, 'nchunks': nch, 'meta': kind, 'values': {}, 'pad': []}
        if kind in ('full', 'same'):
            inactive = set()
        elif kind == 'drop':
            cands = [c['name'] for c in f.chans if c['name'] not in inactive]
            if len(cands) >= 2:
                drop = set(rng.sample(cands, rng.randint(1, len(cands) - 1)))
                seg['dropped_here'] = drop
                inactive = inactive | drop
            else:
                seg['meta'] = 'none'
        seg['inactive'] = set(inactive)
        if f.seg_chunk_size(seg) == 0:
            seg['nchunks'] = nch = 0
        for k in range(nch):
            seg['pad'].append([rand_bytes(rng, n * w) for n, w in zip(f.seg_buflen(seg), f.widths)])
        for ch in f.chans:
            for s in ch['scalers']:
                vs = []
                for k in range(nch):
                    if f.digital:
                        vs.append(np.array([rng.getrandbits(1) for _ in range(ch['n'])], dtype=DQ[s['t']][0]))
                    else:
                        dt, size, _ = DQ[s['t']]
                        vs.append(np.frombuffer(rand_bytes(rng, ch['n'] * size), dtype=np.dtype(dt).newbyteorder('<')).astype(dt))
                seg['values'][(ch['name'], s['id'])] = vs
        f.segs.append(seg)
    # a later segment that restates the raw data index in full may move scalers within the row: same types, same widths,
    # other byte offsets (here: two scalers of equal size in the same buffer exchange their places)
    cur = {}
    for si, seg in enumerate(f.segs):
        if si > 0 and seg['meta'] == 'full':
            cur = {}
            if relayout and rng.random() < 0.5:
                allsc = [(ch, sc) for ch in f.chans for sc in ch['scalers']]
                pairs = [(a, b) for i_, a in enumerate(allsc) for b in allsc[i_ + 1:]
                         if a[1]['buf'] == b[1]['buf'] and DQ[a[1]['t']][1] == DQ[b[1]['t']][1]]
                if pairs:
                    (cha, sa), (chb, sb) = rng.choice(pairs)
                    key = 'bit' if f.digital else 'off'
                    cur = {(cha['name'], sa['id']): sb[key], (chb['name'], sb['id']): sa[key]}
        seg['layout'] = dict(cur)
    return f
