"""Bit-exact observation / comparison helpers.  Never compares via numpy 'U' arrays (they strip
trailing NULs) nor via '==' on floats; structured timestamp arrays are read field-wise."""
import io
import numpy as np
from . import model as M

NP_KIND = {'i8': 'i1', 'i16': 'i2', 'i32': 'i4', 'i64': 'i8', 'u8': 'u1', 'u16': 'u2', 'u32': 'u4', 'u64': 'u8',
           'f32': 'f4', 'f64': 'f8', 'f32u': 'f4', 'f64u': 'f8', 'bool': '?', 'c64': 'c8', 'c128': 'c16'}
TDS_NAME = {'i8': 'Int8', 'i16': 'Int16', 'i32': 'Int32', 'i64': 'Int64', 'u8': 'Uint8', 'u16': 'Uint16',
            'u32': 'Uint32', 'u64': 'Uint64', 'f32': 'SingleFloat', 'f64': 'DoubleFloat',
            'f32u': 'SingleFloatWithUnit', 'f64u': 'DoubleFloatWithUnit', 'bool': 'Boolean',
            'c64': 'ComplexSingleFloat', 'c128': 'ComplexDoubleFloat', 'str': 'String', 'ts': 'TimeStamp'}


def norm_dtype(dt):
    """dtype with byte order removed ('=')."""
    dt = np.dtype(dt)
    if dt.names:
        return ('struct', tuple(sorted((n, np.dtype(dt.fields[n][0]).kind, np.dtype(dt.fields[n][0]).itemsize) for n in dt.names)))
    if dt.kind in 'OSUV' or dt.kind == 'M' or dt.kind == 'm':
        return str(dt.newbyteorder('=')) if dt.kind in 'Mm' else str(dt)
    return dt.newbyteorder('=').str.lstrip('<>=|')


def is_ts_array(a):
    return isinstance(a, np.ndarray) and a.dtype.names is not None and set(a.dtype.names) == {'seconds', 'second_fractions'}


def image(data):
    """Canonical, comparable image of an array returned by nptdms.
       numeric -> ('num', normalised dtype str, little-endian bytes)
       strings/object -> ('obj', [python values])
       raw timestamps -> ('ts', [(sec, frac)])
       datetime64 -> ('dt', unit dtype, int64 bytes)"""
    if isinstance(data, list):
        return ('list', [x for x in data])
    a = np.asarray(data) if not isinstance(data, np.ndarray) else data
    if is_ts_array(a):
        s = np.asarray(a['seconds']).astype('<i8').tolist()
        f = np.asarray(a['second_fractions']).astype('<u8').tolist()
        return ('ts', list(zip(s, f)))
    if a.dtype == object:
        return ('obj', list(a.tolist()))
    if a.dtype.kind == 'M':
        return ('dt', str(a.dtype.newbyteorder('=')), np.ascontiguousarray(a).astype(a.dtype.newbyteorder('<')).tobytes())
    le = np.ascontiguousarray(a).astype(a.dtype.newbyteorder('<'), copy=False)
    return ('num', norm_dtype(a.dtype), le.tobytes())


def expected_image(t, flat):
    if t == 'str':
        return ('obj', list(flat))
    if t == 'ts':
        return ('ts', [(int(s), int(f)) for s, f in flat])
    return ('num', np.dtype(NP_KIND[t]).str.lstrip('<>=|'), M.canon_bytes(t, flat))


def image_len(img):
    if img[0] in ('obj', 'ts', 'list'):
        return len(img[1])
    if img[0] == 'dt':
        return len(img[2]) // 8
    return len(img[2]) // max(1, np.dtype(img[1]).itemsize)


def image_slice(img, sl):
    """Apply a python slice/index to an image (NumPy semantics on the value sequence)."""
    if img[0] in ('obj', 'ts', 'list'):
        return (img[0], img[1][sl])
    if img[0] == 'dt':
        a = np.frombuffer(img[2], dtype='<i8')[sl]
        return ('dt', img[1], np.ascontiguousarray(a).tobytes())
    a = np.frombuffer(img[2], dtype=np.dtype(img[1]).newbyteorder('<'))[sl]
    return ('num', img[1], np.ascontiguousarray(a).tobytes())


def image_concat(imgs, like=None):
    imgs = list(imgs)
    if not imgs:
        return like
    k = imgs[0][0]
    if k in ('obj', 'ts', 'list'):
        out = []
        for im in imgs:
            out.extend(im[1])
        return (k, out)
    if k == 'dt':
        return ('dt', imgs[0][1], b''.join(im[2] for im in imgs))
    return ('num', imgs[0][1], b''.join(im[2] for im in imgs))


def img_equal(a, b, loose_kind=False):
    """Exact equality of images. loose_kind: treat 'obj' and 'list' as the same kind."""
    if a is None or b is None:
        return a is b
    ka, kb = a[0], b[0]
    if loose_kind:
        ka = 'obj' if ka == 'list' else ka
        kb = 'obj' if kb == 'list' else kb
    if ka != kb:
        return False
    return tuple(a[1:]) == tuple(b[1:])


def short(img, n=6):
    if img is None:
        return None
    if img[0] in ('obj', 'ts', 'list'):
        return (img[0], len(img[1]), img[1][:n])
    if img[0] == 'dt':
        return ('dt', img[1], len(img[2]) // 8, np.frombuffer(img[2], '<i8')[:n].tolist())
    a = np.frombuffer(img[2], dtype=np.dtype(img[1]).newbyteorder('<'))
    return ('num', img[1], len(a), [repr(x) for x in a[:n].tolist()])


# ------------------------------------------------------------------------- properties
def prop_matches(pt, expected, observed):
    """Does the observed (raw_timestamps=True) property value equal the model value of type pt?"""
    if pt == 'str':
        return isinstance(observed, str) and observed == expected
    if pt == 'ts':
        return (hasattr(observed, 'seconds') and int(observed.seconds) == int(expected[0]) and
                int(observed.second_fractions) == int(expected[1]))
    if pt == 'bool':
        return isinstance(observed, (bool, np.bool_)) and bool(observed) == bool(expected)
    if pt in ('f32', 'f64'):
        if not isinstance(observed, (float, np.floating)):
            return False
        e = float(expected)
        return e == float(observed) or (e != e and observed != observed)
    if isinstance(observed, (bool, np.bool_)) or not isinstance(observed, (int, np.integer)):
        return False
    return int(observed) == int(expected)


def props_snapshot(props):
    """Order-preserving, comparable snapshot of a property dict (between two reads)."""
    out = []
    for k, v in props.items():
        if hasattr(v, 'seconds') and hasattr(v, 'second_fractions'):
            out.append((k, 'TdmsTimestamp', int(v.seconds), int(v.second_fractions)))
        elif isinstance(v, np.datetime64):
            out.append((k, 'datetime64', str(v.dtype), int(v.astype('int64'))))
        elif isinstance(v, (float, np.floating)):
            out.append((k, type(v).__name__, np.float64(v).tobytes().hex()))
        else:
            out.append((k, type(v).__name__, repr(v)))
    return out


def scalar_image(x):
    """Comparable image of one value obtained by integer indexing."""
    if hasattr(x, 'seconds') and hasattr(x, 'second_fractions'):
        return ('ts', int(x.seconds), int(x.second_fractions))
    if isinstance(x, str):
        return ('str', x)
    a = np.asarray(x)
    return ('num', norm_dtype(a.dtype), a.tobytes())


# ------------------------------------------------------------------------- whole-file snapshot
def channel_full(ch):
    """Full data of a channel, tolerant of the untyped/zero-length corner (returns None when the
    library cannot deliver data for a channel of length 0)."""
    return ch[:]


def snapshot(tf, with_data=True, scaled=True, with_chunks=False):
    """Comparable snapshot of a TdmsFile (opened with any options)."""
    snap = {'root': props_snapshot(tf.properties) + [('<tdms_version>', getattr(tf, 'tdms_version', None))], 'groups': [], 'channels': {}}
    for g in tf.groups():
        snap['groups'].append((g.name, g.path, props_snapshot(g.properties), [c.name for c in g.channels()]))
        for c in g.channels():
            ent = {'type': None if c.data_type is None else c.data_type.__name__, 'len': len(c),
                   'props': props_snapshot(c.properties), 'dtype': norm_dtype(c.dtype)}
            if with_data:
                try:
                    d = c[:] if scaled else c.read_data(scaled=False)
                    ent['data'] = image(d) if not isinstance(d, dict) else {k: image(v) for k, v in sorted(d.items())}
                except Exception as ex:   # recorded, compared like any other observation
                    ent['data'] = ('raises', type(ex).__name__)
                if scaled and len(c):
                    try:
                        ent['ends'] = (scalar_image(c[0]), scalar_image(c[-1]))
                    except Exception as ex:
                        ent['ends'] = ('raises', type(ex).__name__)
                if scaled and with_chunks:
                    try:
                        parts = []
                        for chunk in c.data_chunks():
                            first = image(chunk[:])
                            second = image(chunk[:])          # the same chunk object read twice
                            parts.append(second if img_equal(first, second) else ('chunk-read-twice-differs',))
                        ent['chunks'] = parts
                    except Exception as ex:
                        ent['chunks'] = ('raises', type(ex).__name__)
            snap['channels'][c.path] = ent
    return snap


def snapshot_diff(a, b, keys=('root', 'groups', 'channels')):
    """List of human-readable differences between two snapshots (empty = identical)."""
    diffs = []
    if 'root' in keys and a['root'] != b['root']:
        diffs.append(('root-props', a['root'][:4], b['root'][:4]))
    if 'groups' in keys and a['groups'] != b['groups']:
        diffs.append(('groups', [g[0] for g in a['groups']], [g[0] for g in b['groups']]))
    if 'channels' in keys:
        if list(a['channels']) != list(b['channels']):
            diffs.append(('channel-set', list(a['channels']), list(b['channels'])))
        for p in a['channels']:
            if p in b['channels']:
                ca, cb = a['channels'][p], b['channels'][p]
                for k in ca:
                    if ca.get(k) != cb.get(k):
                        va, vb = ca.get(k), cb.get(k)
                        if k == 'data':
                            va = short(va) if isinstance(va, tuple) and va and va[0] != 'raises' else va
                            vb = short(vb) if isinstance(vb, tuple) and vb and vb[0] != 'raises' else vb
                        diffs.append(('channel.' + k, p, va, vb))
    return diffs
