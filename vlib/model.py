"""Logical model of a TDMS file + independent encoder (struct/NumPy only, shares no code or
tables with nptdms).  Written from the NI TDMS format description.

Values:  numeric -> little-endian np arrays of the base dtype; 'str' -> list[str];
         'ts' -> list[(seconds, fractions)].
"""
import struct
import numpy as np

TOC = dict(meta=2, newobj=4, raw=8, inter=32, big=64, daqmx=128)

# typekey -> (tdms code, numpy base dtype or None, size in bytes or None)
TYPES = {
    'i8': (1, 'i1', 1), 'i16': (2, 'i2', 2), 'i32': (3, 'i4', 4), 'i64': (4, 'i8', 8),
    'u8': (5, 'u1', 1), 'u16': (6, 'u2', 2), 'u32': (7, 'u4', 4), 'u64': (8, 'u8', 8),
    'f32': (9, 'f4', 4), 'f64': (10, 'f8', 8), 'f32u': (0x19, 'f4', 4), 'f64u': (0x1A, 'f8', 8),
    'bool': (0x21, '?', 1), 'c64': (0x08000c, 'c8', 8), 'c128': (0x10000d, 'c16', 16),
    'str': (0x20, None, None), 'ts': (0x44, None, 16),
}
ALL_TYPES = list(TYPES)
FIXED_TYPES = [k for k in TYPES if k != 'str']
NUMERIC_REAL = ['i8', 'i16', 'i32', 'i64', 'u8', 'u16', 'u32', 'u64', 'f32', 'f64']
CODE2KEY = {v[0]: k for k, v in TYPES.items()}

STR_ALPHABET = ['a', 'b', 'Z', 'é', '€', '😀', ' ', "'", '/', '\x00', '"', '\n']


def qpath(group=None, chan=None):
    def q(x):
        return "'" + x.replace("'", "''") + "'"
    if group is None:
        return '/'
    return '/' + q(group) if chan is None else '/' + q(group) + '/' + q(chan)


def split_path(p):
    """Inverse of qpath written independently (state machine over quotes)."""
    if p == '/':
        return ()
    comps, i, n = [], 0, len(p)
    while i < n:
        assert p[i] == '/' and p[i + 1] == "'", p
        i += 2
        cur = []
        while True:
            if p[i] == "'":
                if i + 1 < n and p[i + 1] == "'":
                    cur.append("'")
                    i += 2
                    continue
                i += 1
                break
            cur.append(p[i])
            i += 1
        comps.append(''.join(cur))
    return tuple(comps)


# ----------------------------------------------------------------------------- values
def rand_bytes(rng, n):
    return rng.getrandbits(8 * n).to_bytes(n, 'little') if n else b''


def rand_string(rng):
    return ''.join(rng.choice(STR_ALPHABET) for _ in range(rng.choice([0, 0, 1, 1, 2, 3, 7])))


def rand_ts(rng, datetime_safe=True):
    if datetime_safe:
        secs = rng.choice([0, -1, 1, 3600000000, -2082844800, 3786825600,
                           rng.randrange(-2 ** 33, 2 ** 33), rng.randrange(-2 ** 37, 2 ** 37)])
    else:
        secs = rng.choice([0, -1, 2 ** 63 - 1, -2 ** 63, rng.randrange(-2 ** 63, 2 ** 63)])
    frac = rng.choice([0, 1, 2 ** 64 - 1, 2 ** 63, rng.randrange(2 ** 64), rng.randrange(2 ** 64)])
    return (secs, frac)


def rand_values(rng, t, n, ts_safe=True):
    if t == 'str':
        return [rand_string(rng) for _ in range(n)]
    if t == 'ts':
        return [rand_ts(rng, ts_safe) for _ in range(n)]
    code, dt, size = TYPES[t]
    raw = rand_bytes(rng, n * size)
    if dt == '?':
        return np.frombuffer(bytes(b & 1 for b in raw), dtype='?').copy()
    a = np.frombuffer(raw, dtype=np.dtype(dt).newbyteorder('<')).copy()
    if n and rng.random() < 0.3:
        # sprinkle extremes that random bytes rarely produce
        ext = extremes(t)
        for _ in range(rng.randint(1, 2)):
            a[rng.randrange(n)] = ext[rng.randrange(len(ext))]
    return a


def extremes(t):
    dt = np.dtype(TYPES[t][1])
    if dt.kind in 'iu':
        ii = np.iinfo(dt)
        return np.array([ii.min, ii.max, 0, 1], dtype=dt)
    if dt.kind == 'f':
        fi = np.finfo(dt)
        return np.array([0.0, -0.0, fi.max, fi.min, fi.tiny, fi.smallest_subnormal, np.inf, -np.inf, np.nan], dtype=dt)
    if dt.kind == 'c':
        return np.array([0, complex(np.nan, 1), complex(np.inf, -np.inf), complex(-0.0, 0.0)], dtype=dt)
    return np.array([0, 1], dtype=dt)


def strings_with_payload(rng, n, payload):
    """n strings whose UTF-8 payload totals exactly `payload` bytes."""
    if n == 0:
        assert payload == 0
        return []
    vals = [rand_string(rng) for _ in range(n)]
    tot = sum(len(v.encode('utf-8')) for v in vals)
    i = 0
    while tot > payload:
        j = i % n
        if vals[j]:
            tot -= len(vals[j][-1].encode('utf-8'))
            vals[j] = vals[j][:-1]
        i += 1
    if tot < payload:
        j = rng.randrange(n)
        vals[j] = vals[j] + 'x' * (payload - tot)
    return vals


def str_total(vals):
    return sum(4 + len(v.encode('utf-8')) for v in vals)


def values_to_bytes(t, vals, e):
    if t == 'str':
        bs = [v.encode('utf-8') for v in vals]
        offs, tot = [], 0
        for b in bs:
            tot += len(b)
            offs.append(tot)
        return b''.join(struct.pack(e + 'I', o) for o in offs) + b''.join(bs)
    if t == 'ts':
        if e == '<':
            return b''.join(struct.pack('<Qq', f, s) for s, f in vals)
        return b''.join(struct.pack('>qQ', s, f) for s, f in vals)
    dt = TYPES[t][1]
    return np.asarray(vals, dtype=dt).astype(np.dtype(dt).newbyteorder(e)).tobytes()


def canon_bytes(t, vals):
    """Canonical little-endian byte image used for bit-exact comparison."""
    return values_to_bytes(t, vals, '<')


def enc_str(e, s):
    b = s.encode('utf-8')
    return struct.pack(e + 'I', len(b)) + b


# ----------------------------------------------------------------------------- properties
PROP_TYPES = ['i8', 'i16', 'i32', 'i64', 'u8', 'u16', 'u32', 'u64', 'f32', 'f64', 'bool', 'str', 'ts']


def rand_prop_value(rng, pt):
    if pt == 'str':
        return rand_string(rng)
    if pt == 'ts':
        return rand_ts(rng)
    v = rand_values(rng, pt, 1)[0]
    return v


def enc_prop(e, name, pt, val):
    out = enc_str(e, name)
    if pt == 'str':
        return out + struct.pack(e + 'I', 0x20) + enc_str(e, val)
    if pt == 'ts':
        s, f = val
        return out + struct.pack(e + 'I', 0x44) + (struct.pack('<Qq', f, s) if e == '<' else struct.pack('>qQ', s, f))
    code, dt, size = TYPES[pt]
    return out + struct.pack(e + 'I', code) + np.array([val], dtype=dt).astype(np.dtype(dt).newbyteorder(e)).tobytes()


def prop_canon(pt, val):
    if pt == 'str':
        return ('str', val)
    if pt == 'ts':
        return ('ts', int(val[0]), int(val[1]))
    return (pt, np.array([val], dtype=TYPES[pt][1]).tobytes())


# ----------------------------------------------------------------------------- segments
class Seg(object):
    """One physical segment.
       listing   [(path, hdr, index)]  hdr in full/same/nodata; index=(type, nvals, strtotal|None)
       props     {path: [(name, ptype, value)]}     (only for listed paths)
       new_obj_list, has_meta, endian, interleaved, raw_flag, pad (bytes of metadata padding), version
       active    ordered [(path, has_data, index|None)] after this segment's header is applied
       chunks    [ {path: values} ]  one dict per chunk, for has_data paths
    """
    def __init__(self):
        self.listing = []
        self.props = {}
        self.new_obj_list = True
        self.has_meta = True
        self.endian = '<'
        self.interleaved = False
        self.inter_flag_only = False    # kTocInterleavedData set on a segment whose only data object is one string channel
        #                                 (written by some producers; the data is laid out contiguously)
        self.raw_flag = True
        self.pad = 0
        self.version = 4713
        self.active = []
        self.chunks = []

    def data_objects(self):
        return [(p, idx) for (p, hd, idx) in self.active if hd]

    def describe(self):
        return {
            'listing': [(p, h, idx) for p, h, idx in self.listing], 'newobj': self.new_obj_list,
            'meta': self.has_meta, 'endian': self.endian, 'inter': self.interleaved, 'pad': self.pad,
            'interleaved_flag_on_single_string_channel': self.inter_flag_only,
            'nchunks': len(self.chunks),
            'active': [(p, hd, idx) for p, hd, idx in self.active],
            'props': {p: [(n, t) for n, t, v in pl] for p, pl in self.props.items()},
        }

    def signature(self):
        return ('I' if self.interleaved else 'C', self.endian, len(self.chunks), self.has_meta, self.new_obj_list,
                tuple(sorted((idx[0], idx[1]) for p, idx in self.data_objects())),
                tuple(sorted(h for _, h, _ in self.listing)))


def obj_size(idx):
    t, n, tot = idx
    if t == 'str':
        return tot
    return n * TYPES[t][2]


def encode_segment(seg, explicit=False, marker=False, endian=None):
    """-> (lead_in_after_tag(24 bytes), meta, data, chunk_map)
       chunk_map: list per chunk of (chunk_rel_start, chunk_len, {path: (rel_start, len)})  (offsets rel. to data start)
    """
    e = endian or seg.endian
    dobjs = seg.data_objects()
    data = bytearray()
    chunk_map = []
    if seg.interleaved:
        n = dobjs[0][1][1] if dobjs else 0
        for ch in seg.chunks:
            start = len(data)
            cols = [values_to_bytes(idx[0], ch[p], e) for p, idx in dobjs]
            sizes = [TYPES[idx[0]][2] for p, idx in dobjs]
            for r in range(n):
                for col, sz in zip(cols, sizes):
                    data += col[r * sz:(r + 1) * sz]
            chunk_map.append((start, len(data) - start, {p: (start, len(data) - start) for p, _ in dobjs}))
    else:
        for ch in seg.chunks:
            start = len(data)
            per = {}
            for p, idx in dobjs:
                b = values_to_bytes(idx[0], ch[p], e)
                assert len(b) == obj_size(idx), (p, idx, len(b))
                per[p] = (len(data), len(b))
                data += b
            chunk_map.append((start, len(data) - start, per))
    if explicit:
        listed = {p for p, _, _ in seg.listing}
        listing = []
        for (p, hd, idx) in seg.active:
            if hd:
                listing.append((p, 'full', idx))
            elif p in listed:
                listing.append((p, 'nodata', None))
        # objects listed in this segment that are not part of the active list cannot occur:
        # every listed object is in the active list.
        has_meta, newobj = True, True
    else:
        listing, has_meta, newobj = seg.listing, seg.has_meta, seg.new_obj_list
    meta = b''
    if has_meta:
        parts = [struct.pack(e + 'I', len(listing))]
        for p, hdr, idx in listing:
            parts.append(enc_str(e, p))
            if hdr == 'nodata':
                parts.append(struct.pack(e + 'I', 0xFFFFFFFF))
            elif hdr == 'same':
                parts.append(struct.pack(e + 'I', 0))
            else:
                t, n, tot = idx
                code = TYPES[t][0]
                if t == 'str':
                    parts.append(struct.pack(e + 'IIIQQ', 28, code, 1, n, tot))
                else:
                    parts.append(struct.pack(e + 'IIIQ', 20, code, 1, n))
            pl = seg.props.get(p, [])
            parts.append(struct.pack(e + 'I', len(pl)))
            for name, pt, val in pl:
                parts.append(enc_prop(e, name, pt, val))
        meta = b''.join(parts) + b'\x00' * seg.pad
    mask = ((TOC['meta'] if has_meta else 0) | (TOC['newobj'] if (newobj and has_meta) else 0) |
            (TOC['raw'] if (len(data) or seg.raw_flag) else 0) | (TOC['inter'] if (seg.interleaved or getattr(seg, 'inter_flag_only', False)) else 0) |
            (TOC['big'] if e == '>' else 0))
    nxt = 0xFFFFFFFFFFFFFFFF if marker else len(meta) + len(data)
    lead = struct.pack('<i', mask) + struct.pack(e + 'iQQ', seg.version, nxt, len(meta))
    return lead, meta, bytes(data), chunk_map


class Layout(object):
    """Byte layout of an encoded file (all absolute offsets)."""
    def __init__(self):
        self.segs = []   # dicts: start, meta_start, data_start, end, chunks=[(start,len,{path:(start,len)})], inter

    def seg_of(self, off):
        for s in self.segs:
            if s['start'] <= off < s['end']:
                return s
        return None


def encode_file(segs, explicit=False, marker_last=False, endian=None):
    """-> (data_file_bytes, index_file_bytes, Layout)
       endian: None (per segment as generated), '<', '>' or a list per segment."""
    out = bytearray()
    idx = bytearray()
    lay = Layout()
    for i, s in enumerate(segs):
        e = endian[i] if isinstance(endian, (list, tuple)) else endian
        lead, meta, data, cmap = encode_segment(s, explicit, marker_last and i == len(segs) - 1, e)
        start = len(out)
        ds = start + 28 + len(meta)
        lay.segs.append({
            'start': start, 'meta_start': start + 28, 'data_start': ds, 'end': ds + len(data),
            'inter': s.interleaved, 'index_start': len(idx),
            'chunks': [(ds + a, ln, {p: (ds + x, y) for p, (x, y) in per.items()}) for a, ln, per in cmap]})
        out += b'TDSm' + lead + meta + data
        idx += b'TDSh' + lead + meta
    return bytes(out), bytes(idx), lay


# ----------------------------------------------------------------------------- generator
DEFAULT_OPTS = dict(
    max_segs=5, max_chans=4, types=None, inter=None, allow_be=True, lens=(0, 1, 2, 3, 5, 7),
    chunks=(1, 1, 2, 3), p_nometa=0.15, p_newobj=0.4, p_same=0.3, p_nodata=0.15, p_pad=0.15,
    p_props=0.4, ts_safe=True, p_zero_chunks=0.1, groups=('g', "g'2", '', "ft'/s"), extra_objects=True, versions=(4712, 4713),
)

PROP_NAMES = ['p', 'q', 'wf_increment', 'unit_string', 'é/€', '']


def gen_file(rng, **kw):
    o = dict(DEFAULT_OPTS)
    o.update(kw)
    types = list(o['types'] or ALL_TYPES)
    groups = list(o['groups'])
    universe = []
    for i in range(rng.randint(1, o['max_chans'])):
        g = rng.choice(groups)
        universe.append((qpath(g, ('c%d' if rng.random() < 0.85 else "d'/dt%d") % i), rng.choice(types)))
    extra = [qpath()] + [qpath(g) for g in groups] + [qpath('onlygroup')] if o['extra_objects'] else []
    segs, active, last_index = [], [], {}
    nseg = rng.randint(1, o['max_segs'])
    version = rng.choice(o['versions'])
    for si in range(nseg):
        s = Seg()
        s.version = version
        s.endian = rng.choice('<>') if o['allow_be'] else '<'
        if segs and rng.random() < o['p_nometa'] and any(hd for _, hd, _ in active):
            s.has_meta = False
            s.new_obj_list = False
        else:
            s.new_obj_list = (not segs) or rng.random() < o['p_newobj']
            if s.new_obj_list:
                active = []
            listing = []
            cands = universe[:]
            rng.shuffle(cands)
            k = rng.randint(0 if segs else 1, len(cands))
            for p, t in cands[:k]:
                cur = [i for i, (pp, _, _) in enumerate(active) if pp == p]
                r = rng.random()
                if p in last_index and r < o['p_same']:
                    hdr, idx = 'same', last_index[p]
                    entry = (p, True, idx)
                elif r < o['p_same'] + o['p_nodata']:
                    hdr, idx = 'nodata', None
                    entry = (p, False, last_index.get(p))
                else:
                    n = rng.choice(o['lens'])
                    if t == 'str':
                        payload = rng.choice([0, 1, 3, 8, 20]) if n else 0
                        idx = (t, n, 4 * n + payload)
                    else:
                        idx = (t, n, None)
                    hdr = 'full'
                    entry = (p, True, idx)
                listing.append((p, hdr, idx))
                if cur:
                    active[cur[0]] = entry
                else:
                    active.append(entry)
                if hdr == 'full':
                    last_index[p] = idx
            for p in rng.sample(extra, rng.randint(0, len(extra))) if extra else []:
                if not any(pp == p for pp, _, _ in active):
                    active.append((p, False, None))
                # (re-)listing a non-data object: stays where it is in the active list
                listing.insert(rng.randint(0, len(listing)), (p, 'nodata', None))
            # the active list must reflect the listing order for *new* objects; rebuild order for
            # objects appended in this segment according to listing order
            active = _reorder_new(active, listing, segs[-1].active if (segs and not s.new_obj_list) else [])
            s.listing = listing
            if rng.random() < o['p_pad']:
                s.pad = rng.choice([1, 3, 8, 64])
            for (p, _, _) in listing:
                if rng.random() < o['p_props']:
                    pl = []
                    for _ in range(rng.randint(1, 3)):
                        pt = rng.choice(PROP_TYPES)
                        pl.append((rng.choice(PROP_NAMES), pt, rand_prop_value(rng, pt)))
                    s.props[p] = pl
        dobjs = [(p, idx) for p, hd, idx in active if hd]
        fixed = all(idx[0] != 'str' for p, idx in dobjs)
        same_n = len({idx[1] for p, idx in dobjs}) <= 1
        can_inter = bool(dobjs and fixed and same_n)
        if o['inter'] is None:
            s.interleaved = can_inter and rng.random() < 0.4
        else:
            s.interleaved = can_inter and bool(o['inter'])
        if len(dobjs) == 1 and dobjs[0][1][0] == 'str' and o['inter'] is None and rng.random() < 0.3:
            s.inter_flag_only = True
        nonzero = any(obj_size(idx) > 0 for p, idx in dobjs)
        if not nonzero or rng.random() < o['p_zero_chunks']:
            nch = 0
        else:
            nch = rng.choice(o['chunks'])
        s.raw_flag = bool(nch) or rng.random() < 0.5
        for c in range(nch):
            ch = {}
            for p, idx in dobjs:
                t, n, tot = idx
                if t == 'str':
                    ch[p] = strings_with_payload(rng, n, tot - 4 * n)
                else:
                    ch[p] = rand_values(rng, t, n, o['ts_safe'])
            s.chunks.append(ch)
        s.active = list(active)
        segs.append(s)
    return segs


def _reorder_new(active, listing, prev_active):
    """New objects are appended to the list in the order in which the segment lists them."""
    prev_paths = [p for p, _, _ in prev_active]
    cur = {p: (p, hd, idx) for p, hd, idx in active}
    out = [cur[p] for p in prev_paths if p in cur]
    seen = set(prev_paths)
    for p, _, _ in listing:
        if p not in seen and p in cur:
            out.append(cur[p])
            seen.add(p)
    return out


# ----------------------------------------------------------------------------- expected content
class Expected(object):
    def __init__(self, segs):
        self.objects = []          # paths in order of first appearance
        self.values = {}           # path -> list of per-chunk values
        self.props = {}            # path -> {name: (ptype, value)}  (insertion = first write order)
        self.types = {}            # path -> typekey
        self.seg_counts = []       # per segment {path: nvalues}
        for s in segs:
            for p, hdr, idx in s.listing:
                if p not in self.objects:
                    self.objects.append(p)
            for p, hdr, idx in s.listing:
                for name, pt, v in s.props.get(p, []):
                    self.props.setdefault(p, {})[name] = (pt, v)
            cnt = {}
            for p, hd, idx in s.active:
                if idx is not None:
                    self.types[p] = idx[0]
                if hd:
                    cnt[p] = idx[1] * len(s.chunks)
            self.seg_counts.append(cnt)
            for ch in s.chunks:
                for p, hd, idx in s.active:
                    if hd:
                        self.values.setdefault(p, []).append(ch[p])

    def channels(self):
        return [p for p in self.objects if len(split_path(p)) == 2]

    def groups_declared(self):
        return [split_path(p)[0] for p in self.objects if len(split_path(p)) == 1]

    def flat(self, p):
        t = self.types.get(p)
        chunks = self.values.get(p, [])
        if t in ('str', 'ts'):
            return [v for c in chunks for v in c]
        if t is None:
            return None
        dt = TYPES[t][1]
        if not chunks:
            return np.zeros(0, dtype=dt)
        return np.concatenate([np.asarray(c, dtype=dt) for c in chunks])

    def length(self, p):
        return sum(len(c) for c in self.values.get(p, []))


# ----------------------------------------------------------------------------- directed builder
def build_file(rng, chans, nseg=1, nchunks=(1,), endian='<', inter=False, root_props=None, group_props=None,
               values_fn=None, continuation='mixed', parents='first'):
    """chans: [(group, name, type, n_per_chunk, props)] -> segs.
       Segment 0 lists root, groups and all channels in full; later segments continue with
       'same' listings, no metadata, or restated full indexes (continuation: mixed/same/none/full)."""
    segs = []
    groups = []
    for g, _, _, _, _ in chans:
        if g not in groups:
            groups.append(g)
    index = {}
    for g, name, t, n, props in chans:
        index[qpath(g, name)] = (t, n, (4 * n + 3 * n) if t == 'str' else None)
    for si in range(nseg):
        s = Seg()
        s.endian = endian[si % len(endian)]
        s.interleaved = bool(inter)
        mode = 'full' if si == 0 else (continuation if continuation != 'mixed' else rng.choice(['same', 'none', 'full']))
        if mode == 'none':
            s.has_meta, s.new_obj_list = False, False
        else:
            s.new_obj_list = (mode == 'full')
            parent_listing = []
            if si == 0 and parents != 'later':
                parent_listing.append(('/', 'nodata', None))
                if root_props:
                    s.props['/'] = list(root_props)
                for g in groups:
                    parent_listing.append((qpath(g), 'nodata', None))
                    if group_props and g in group_props:
                        s.props[qpath(g)] = list(group_props[g])
            chan_listing = []
            for g, name, t, n, props in chans:
                p = qpath(g, name)
                chan_listing.append((p, 'full' if mode == 'full' else 'same', index[p]))
                if si == 0 and props:
                    s.props[p] = list(props)
            s.listing = (chan_listing + parent_listing) if parents == 'last' else (parent_listing + chan_listing)
        act = []
        if si == 0 or mode == 'full':
            pact = []
            if si == 0 and parents != 'later':
                pact.append(('/', False, None))
                pact += [(qpath(g), False, None) for g in groups]
            cact = [(qpath(g, name), True, index[qpath(g, name)]) for g, name, t, n, props in chans]
            act = (cact + pact) if parents == 'last' else (pact + cact)
        else:
            act = list(segs[-1].active)
        s.active = act
        nch = nchunks[si % len(nchunks)]
        if not any(obj_size(ix) > 0 for _, ix in s.data_objects()):
            nch = 0
        for c in range(nch):
            ch = {}
            for p, ix in s.data_objects():
                t, n, tot = ix
                if values_fn is not None:
                    ch[p] = values_fn(p, t, n)
                elif t == 'str':
                    ch[p] = strings_with_payload(rng, n, tot - 4 * n)
                else:
                    ch[p] = rand_values(rng, t, n)
            s.chunks.append(ch)
        s.raw_flag = True
        segs.append(s)
    if parents == 'later':
        # root and group objects (with their properties) first appear in a trailing metadata-only segment
        s = Seg()
        s.endian = segs[-1].endian
        s.new_obj_list = False
        s.listing = [('/', 'nodata', None)] + [(qpath(g), 'nodata', None) for g in groups]
        if root_props:
            s.props['/'] = list(root_props)
        for g in groups:
            if group_props and g in group_props:
                s.props[qpath(g)] = list(group_props[g])
        s.active = list(segs[-1].active) + [(p, False, None) for p, _, _ in s.listing]
        s.raw_flag = False
        segs.append(s)
    return segs
