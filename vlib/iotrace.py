"""Recording streams: every read/readinto/seek/tell/write/close issued by the library is logged
with position and size, so byte ranges can be checked offline against the generator's layout."""
import io


class TraceIO(io.BytesIO):
    """In-memory binary stream that logs (op, position_before, size/arg, position_after)."""
    def __init__(self, data=b''):
        io.BytesIO.__init__(self, data)
        self.events = []
        self.enabled = True

    def _log(self, *ev):
        if self.enabled:
            self.events.append(ev)

    def read(self, n=-1):
        pos = io.BytesIO.tell(self)
        b = io.BytesIO.read(self, n)
        self._log('read', pos, len(b), n)
        return b

    def readinto(self, buf):
        pos = io.BytesIO.tell(self)
        k = io.BytesIO.readinto(self, buf)
        self._log('readinto', pos, k, len(buf))
        return k

    def seek(self, off, whence=0):
        pos = io.BytesIO.tell(self)
        r = io.BytesIO.seek(self, off, whence)
        self._log('seek', pos, r, whence)
        return r

    def write(self, b):
        pos = io.BytesIO.tell(self)
        k = io.BytesIO.write(self, b)
        self._log('write', pos, k, bytes(b))
        return k

    def close(self):
        self._log('close', None, None, None)
        io.BytesIO.close(self)

    def mark(self):
        return len(self.events)

    def reads_since(self, mark):
        """[(start, length)] of data actually fetched since `mark`."""
        return [(e[1], e[2]) for e in self.events[mark:] if e[0] in ('read', 'readinto') and e[2]]

    def position(self):
        return io.BytesIO.tell(self)


class TraceRawIO(io.RawIOBase):
    """The same log, for an UNBUFFERED raw stream (io.RawIOBase, like open(path, 'rb', buffering=0)): what the library
    fetches from such a stream is what reaches the operating system."""
    def __init__(self, data=b''):
        io.RawIOBase.__init__(self)
        self._inner = io.BytesIO(data)
        self.events = []
        self.enabled = True

    def readable(self):
        return True

    def seekable(self):
        return True

    def readinto(self, buf):
        pos = self._inner.tell()
        k = self._inner.readinto(buf)
        if self.enabled:
            self.events.append(('readinto', pos, k, len(buf)))
        return k

    def seek(self, off, whence=0):
        pos = self._inner.tell()
        r = self._inner.seek(off, whence)
        if self.enabled:
            self.events.append(('seek', pos, r, whence))
        return r

    def tell(self):
        return self._inner.tell()

    def mark(self):
        return len(self.events)

    def reads_since(self, mark):
        return [(e[1], e[2]) for e in self.events[mark:] if e[0] in ('read', 'readinto') and e[2]]

    def position(self):
        return self._inner.tell()


def union(ranges):
    """Merge [(start, len)] into sorted disjoint [(start, end)]."""
    iv = sorted((a, a + l) for a, l in ranges if l > 0)
    out = []
    for a, b in iv:
        if out and a <= out[-1][1]:
            out[-1] = (out[-1][0], max(out[-1][1], b))
        else:
            out.append((a, b))
    return out


def covered(read, allowed_union):
    """Is [start, start+len) inside the union of allowed intervals?"""
    a, l = read
    b = a + l
    for x, y in allowed_union:
        if x <= a and b <= y:
            return True
    return False
