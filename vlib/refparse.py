"""Independent strict parser of the TDMS layout (struct only; shares nothing with nptdms).

strict=True follows every length field literally and reports any slack as a finding:
  * metadata must end exactly at the lead-in's raw-data offset
  * a raw data index must be exactly as long as its length field says (the field counts itself:
    20 = 4 length + 4 type + 4 dimension + 8 count; strings 28 = +8 total size)
  * the raw data length must equal nchunks x sum(count x size) (strings: declared total size), and a string
    channel's offset table must be non-decreasing and end at the payload size
strict=False tolerates metadata padding (LabVIEW pre-allocates it) and is used to validate the model
against the LabVIEW-written files bundled with the repository."""
import struct

SIZES = {1: 1, 2: 2, 3: 4, 4: 8, 5: 1, 6: 2, 7: 4, 8: 8, 9: 4, 10: 8, 0x19: 4, 0x1A: 8, 0x21: 1, 0x44: 16,
         0x08000c: 8, 0x10000d: 16}
FMT = {1: 'b', 2: 'h', 3: 'i', 4: 'q', 5: 'B', 6: 'H', 7: 'I', 8: 'Q', 9: 'f', 10: 'd', 0x19: 'f', 0x1A: 'd', 0x21: 'b'}
STRING, TIMESTAMP = 0x20, 0x44


class ParseError(Exception):
    pass


class Cursor(object):
    def __init__(self, b, pos, end):
        self.b, self.pos, self.end = b, pos, end

    def take(self, n, what):
        if n < 0 or self.pos + n > self.end:
            raise ParseError('%s: need %d bytes at %d, region ends at %d' % (what, n, self.pos, self.end))
        r = self.b[self.pos:self.pos + n]
        self.pos += n
        return r

    def u32(self, e, what):
        return struct.unpack(e + 'I', self.take(4, what))[0]

    def u64(self, e, what):
        return struct.unpack(e + 'Q', self.take(8, what))[0]

    def string(self, e, what):
        n = self.u32(e, what + ' length')
        raw = self.take(n, what)
        try:
            return raw.decode('utf-8')
        except UnicodeDecodeError:
            raise ParseError('%s: not valid UTF-8' % what)


def parse_value(cur, e, code, what):
    if code == STRING:
        return cur.string(e, what)
    if code == TIMESTAMP:
        raw = cur.take(16, what)
        if e == '<':
            f, s = struct.unpack('<Qq', raw)
        else:
            s, f = struct.unpack('>qQ', raw)
        return (s, f)
    if code in FMT:
        return struct.unpack(e + FMT[code], cur.take(SIZES[code], what))[0]
    raise ParseError('%s: property type code 0x%x not parseable' % (what, code))


def parse(data, strict=True, tag=b'TDSm', with_data=True):
    """-> (segments, findings).  findings: list of (kind, detail) structural problems (strict mode).
       with_data=False parses an index file (no raw data follows the metadata)."""
    segs, findings = [], []
    pos = 0
    active = []          # ordered [(path, has_data, index)]
    last_index = {}
    n = len(data)
    while pos < n:
        if n - pos < 28:
            findings.append(('trailing-bytes', {'at': pos, 'count': n - pos}))
            break
        if data[pos:pos + 4] != tag:
            findings.append(('bad-tag', {'at': pos, 'tag': data[pos:pos + 4].hex()}))
            break
        toc = struct.unpack('<i', data[pos + 4:pos + 8])[0]
        e = '>' if toc & 64 else '<'
        version, nxt, raw_off = struct.unpack(e + 'iQQ', data[pos + 8:pos + 28])
        seg = {'start': pos, 'toc': toc, 'endian': e, 'version': version, 'next_offset': nxt, 'raw_offset': raw_off,
               'objects': [], 'meta_parsed': 0}
        meta_end = pos + 28 + raw_off
        if nxt == 0xFFFFFFFFFFFFFFFF:
            seg_end = n
        else:
            seg_end = pos + 28 + (nxt if with_data else raw_off)
        if raw_off > nxt and nxt != 0xFFFFFFFFFFFFFFFF:
            findings.append(('raw-offset-beyond-next-segment', {'at': pos}))
        if meta_end > n:
            findings.append(('metadata-beyond-eof', {'at': pos}))
            break
        if toc & 2:
            cur = Cursor(data, pos + 28, meta_end)
            try:
                nobj = cur.u32(e, 'object count')
                if toc & 4:
                    active = []
                for _ in range(nobj):
                    path = cur.string(e, 'object path')
                    hdr_pos = cur.pos
                    hdr = cur.u32(e, 'raw index header')
                    obj = {'path': path, 'props': []}
                    if hdr == 0xFFFFFFFF:
                        obj['kind'] = 'nodata'
                        entry = (path, False, last_index.get(path))
                    elif hdr == 0:
                        obj['kind'] = 'same'
                        if path not in last_index:
                            findings.append(('same-without-index', {'path': path, 'at': hdr_pos}))
                        entry = (path, True, last_index.get(path))
                    elif hdr in (0x1269, 0x126A):
                        raise ParseError('DAQmx raw data index not handled by this parser')
                    else:
                        obj['kind'] = 'full'
                        code = cur.u32(e, 'data type')
                        dim = cur.u32(e, 'dimension')
                        count = cur.u64(e, 'value count')
                        total = None
                        if code == STRING:
                            total = cur.u64(e, 'string total size')
                        consumed = cur.pos - hdr_pos
                        obj.update(index_len=hdr, type=code, dim=dim, count=count, total=total, index_bytes=consumed)
                        if strict and hdr != consumed:
                            findings.append(('raw-index-length-field', {'path': path, 'declared': hdr, 'actual': consumed, 'type': code}))
                        if dim != 1:
                            findings.append(('dimension', {'path': path, 'dim': dim}))
                        if code != STRING and code not in SIZES:
                            findings.append(('unknown-data-type', {'path': path, 'type': code}))
                        idx = (code, count, total)
                        last_index[path] = idx
                        entry = (path, True, idx)
                    nprops = cur.u32(e, 'property count')
                    for _ in range(nprops):
                        name = cur.string(e, 'property name')
                        pcode = cur.u32(e, 'property type')
                        obj['props'].append((name, pcode, parse_value(cur, e, pcode, 'property %r' % name)))
                    seg['objects'].append(obj)
                    hit = [i for i, a in enumerate(active) if a[0] == path]
                    if hit:
                        active[hit[0]] = entry
                    else:
                        active.append(entry)
            except ParseError as ex:
                findings.append(('metadata-parse', {'at': pos, 'msg': str(ex)}))
                break
            seg['meta_parsed'] = cur.pos - (pos + 28)
            if cur.pos != meta_end:
                if strict:
                    findings.append(('metadata-slack', {'at': pos, 'parsed': cur.pos - pos - 28, 'raw_offset': raw_off}))
        else:
            if raw_off != 0 and strict:
                findings.append(('raw-offset-without-metadata', {'at': pos, 'raw_offset': raw_off}))
        seg['active'] = list(active)
        # ---- raw data accounting
        if with_data:
            dobjs = [(p, idx) for p, hd, idx in active if hd and idx is not None]
            chunk = 0
            for p, (code, count, total) in dobjs:
                chunk += total if code == STRING else count * SIZES.get(code, 0)
            data_len = seg_end - meta_end
            seg['data_start'], seg['data_len'], seg['chunk_size'] = meta_end, data_len, chunk
            if seg_end > n:
                findings.append(('segment-beyond-eof', {'at': pos, 'end': seg_end, 'size': n}))
                break
            if chunk == 0:
                if data_len != 0:
                    findings.append(('raw-data-without-channels', {'at': pos, 'bytes': data_len}))
                seg['nchunks'] = 0
            else:
                if data_len % chunk:
                    findings.append(('raw-data-length', {'at': pos, 'bytes': data_len, 'chunk': chunk}))
                seg['nchunks'] = data_len // chunk
                # string channels: offset table sanity
                off = meta_end
                for k in range(seg['nchunks']):
                    for p, (code, count, total) in dobjs:
                        if code == STRING:
                            offs = struct.unpack(e + '%dI' % count, data[off:off + 4 * count]) if count else ()
                            if any(b < a for a, b in zip((0,) + offs, offs)) or (offs[-1] if offs else 0) != total - 4 * count:
                                findings.append(('string-offset-table', {'path': p, 'offsets': offs[:8], 'total': total}))
                            off += total
                        else:
                            off += count * SIZES.get(code, 0)
            seg['raw'] = data[meta_end:seg_end]
        segs.append(seg)
        if with_data:
            pos = seg_end
        else:
            pos = meta_end
    return segs, findings


def channel_values(segs, path):
    """Raw little-endian-normalised bytes per chunk are not needed by the checks; return (type, total count)."""
    t, total = None, 0
    for s in segs:
        for p, hd, idx in s['active']:
            if p == path and hd and idx is not None:
                t = idx[0]
                total += idx[1] * s.get('nchunks', 0)
    return t, total
