"""Small helpers shared by checks."""
import io
import os
import random
import shutil
import tempfile
import traceback


def exc_key(ex):
    """Deterministic mechanism fragment for an exception: type + innermost nptdms function."""
    tb = traceback.extract_tb(ex.__traceback__)
    where = '?'
    for fr in tb:
        fn = fr.filename.replace('\\', '/')
        if '/nptdms/' in fn:
            where = os.path.basename(fn)[:-3] + '.' + fr.name
    if isinstance(ex, AssertionError) and type(ex).__name__ == 'ContractBroken':
        return 'ContractBroken[%s]@%s' % (str(ex).split(' (')[0].replace('NumpyDataReceiver', 'Receiver').replace('TimestampDataReceiver', 'Receiver'), where)
    return '%s@%s' % (type(ex).__name__, where)


def exc_detail(ex):
    return {'type': type(ex).__name__, 'msg': str(ex)[:300],
            'tb': [(os.path.basename(f.filename), f.lineno, f.name) for f in traceback.extract_tb(ex.__traceback__)[-6:]]}


def rng_for(*parts):
    return random.Random(repr(parts))


class TempDir(object):
    """Scratch directory under /verif/.work (never /tmp for registered commands)."""
    def __init__(self, prefix='t'):
        base = os.path.join(os.path.dirname(os.path.dirname(os.path.abspath(__file__))), '.work')
        os.makedirs(base, exist_ok=True)
        self.path = tempfile.mkdtemp(prefix=prefix + '-', dir=base)

    def __enter__(self):
        return self.path

    def __exit__(self, *a):
        shutil.rmtree(self.path, ignore_errors=True)


def write_file(path, data):
    with open(path, 'wb') as f:
        f.write(data)
