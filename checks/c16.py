"""C16 - object names are arbitrary strings and never alias."""
import io
import itertools
import random
import numpy as np

from vlib import model as M, util

ID = 'C16'
LEVEL = 'exploration'
LEVEL_TEXT = ('Exhaustive core + exploration: (a) the path codec is enumerated over ALL strings of length <= 4 over {quote, slash, space, '
              'letter} as group names and ALL (group, channel) pairs of length <= 3 (7,566 paths): decode(encode(x)) == x, distinct names '
              'give distinct paths, and the encoding equals the independent quoting rule; (b) end-to-end: files holding all 85 x 85 '
              '(group, channel) pairs, every channel storing its own id, are written by the real writer and read back eagerly and lazily - '
              'every lookup file[g][c] must return its id and report name, path and group_name unchanged; (c) random unicode names.')
LEVEL_NOTE = 'Parts (a) and (b) are exhaustive over the stated finite alphabet/length bound in both tiers; (c) is sampled.'
TECHNIQUE = 'exhaustive enumeration of a small name language through the real codec and a write/read cycle, identity monitor per channel'
RULE = ('(a) all names up to the bound; (b) all 7,225 pairs in one file; (c) random unicode names; non-trivial = name containing a quote or a '
        'slash or empty; distinct = the name pair')
ASSUMPTIONS = ['names contain no lone surrogates (not encodable as UTF-8)']
REQUIRED = ['case_variant_names', 'very_long_names', 'handed_out_lists_emptied', 'absent_name_lookups', 'reordered_segment_files', 'concat_ambiguity_files', 'file_chunk_lookups', 'memmap_files', 'reused_writer_objects', 'implied_group_lookups', 'codec_roundtrips', 'injectivity_pairs', 'end_to_end_lookups', 'unicode_names', 'lazy_lookups']
EXHAUSTIVE = {'quick': False, 'thorough': False}
ALPHA = ["'", '/', ' ', 'a']


def words(maxlen):
    out = []
    for n in range(maxlen + 1):
        out += [''.join(t) for t in itertools.product(ALPHA, repeat=n)]
    return out


W3 = words(3)
W4 = words(4)


def gen_cases(tier, seed):
    for i in range(0, len(W4), 20):
        yield {'k': 'codec-group', 'from': i}
    for i in range(len(W3)):
        yield {'k': 'codec-pairs', 'g': i}
    yield {'k': 'e2e-all'}
    for i in range(0, len(W3), 5):
        yield {'k': 'e2e-groups', 'from': i}
    for i in range(40 if tier == 'quick' else 15000):
        yield {'k': 'unicode', 's': seed * 1000003 + i}


def nontrivial(*names):
    return any(n == '' or "'" in n or '/' in n for n in names)


def run_case(case, ctx):
    {'codec-group': codec_group, 'codec-pairs': codec_pairs, 'e2e-all': e2e_all, 'e2e-groups': e2e_groups, 'unicode': unicode_names}[case['k']](case, ctx)


def codec_group(case, ctx):
    from nptdms.common import ObjectPath
    for g in W4[case['from']:case['from'] + 20]:
        ctx.evaluation()
        p = str(ObjectPath(g))
        back = ObjectPath.from_string(p)
        ctx.count('codec_roundtrips')
        if p != M.qpath(g):
            ctx.violation('codec/encode-differs-from-quoting-rule', {'group': g, 'path': p, 'expected': M.qpath(g)})
        if back.group != g or back.channel is not None or not back.is_group:
            ctx.violation('codec/group-roundtrip', {'group': g, 'path': p, 'decoded': (back.group, back.channel)})
        if nontrivial(g):
            ctx.distinct(('g', g))


def codec_pairs(case, ctx):
    from nptdms.common import ObjectPath
    g = W3[case['g']]
    seen = {}
    for c in W3:
        ctx.evaluation()
        p = str(ObjectPath(g, c))
        back = ObjectPath.from_string(p)
        ctx.count('codec_roundtrips')
        if (back.group, back.channel) != (g, c) or not back.is_channel:
            ctx.violation('codec/pair-roundtrip', {'pair': (g, c), 'path': p, 'decoded': (back.group, back.channel)})
        if p != M.qpath(g, c):
            ctx.violation('codec/encode-differs-from-quoting-rule', {'pair': (g, c), 'path': p})
        if M.split_path(p) != (g, c):
            ctx.violation('codec/independent-decoder-disagrees', {'pair': (g, c), 'path': p})
        if back.group_path() != M.qpath(g):
            ctx.violation('codec/group_path', {'pair': (g, c), 'group_path': back.group_path()})
        ctx.count('injectivity_pairs')
        if p in seen:
            ctx.violation('codec/two-names-one-path', {'path': p, 'pairs': [seen[p], (g, c)]})
        seen[p] = (g, c)
        if nontrivial(g, c):
            ctx.distinct((g, c))
    # injectivity across groups: a path of this group must not equal any path of another group (checked through decoding)
    for g2 in W3:
        if g2 != g:
            ctx.count('injectivity_pairs')
            if str(ObjectPath(g2)) == str(ObjectPath(g)):
                ctx.violation('codec/two-groups-one-path', {'groups': [g, g2]})


def write_read(ctx, pairs, label, reuse=False):
    """Write every pair as a channel holding its id; read back eagerly and lazily and check identity.
    reuse=True: one ChannelObject / GroupObject instance is re-used with its public attributes reassigned, one segment per pair."""
    from nptdms import TdmsFile, TdmsWriter, ChannelObject, GroupObject
    ids = {pc: i for i, pc in enumerate(pairs)}
    buf = io.BytesIO()
    if reuse:
        ctx.count('reused_writer_objects', len(pairs))
        with TdmsWriter(buf) as w:
            ch = ChannelObject(pairs[0][0], pairs[0][1], np.array([0], dtype='i4'), {})
            gr = GroupObject(pairs[0][0], {})
            for g, c in pairs:
                ch.group, ch.channel, ch.data, ch.properties = g, c, np.array([ids[(g, c)]], dtype='i4'), {'id': ids[(g, c)]}
                w.write_segment([ch])
            for g in sorted({g for g, _ in pairs}):
                gr.group, gr.properties = g, {'gname': g}
                w.write_segment([gr])
    else:
      with TdmsWriter(buf) as w:
        # two segments so that objects are looked up again by path in the second one
        half = len(pairs) // 2
        for part in (pairs[:half], pairs[half:]):
            if part:
                w.write_segment([ChannelObject(g, c, np.array([ids[(g, c)]], dtype='i4'), {'id': ids[(g, c)]}) for g, c in part])
        groups = sorted({g for g, _ in pairs})
        w.write_segment([GroupObject(g, {'gname': g}) for g in groups])
    data = buf.getvalue()
    check_identity(ctx, data, pairs, ids, label)


def check_identity(ctx, data, pairs, ids, label, group_props=True):
    from nptdms import TdmsFile
    modes = ['eager', 'lazy']
    if len(pairs) <= 600:
        modes += ['eager-memmap', 'lazy-memmap']
    for mode in modes:
        try:
            mm = util.TempDir('c16mm') if mode.endswith('memmap') else None
            kw = {'memmap_dir': mm.__enter__()} if mm else {}
            if mm:
                ctx.count('memmap_files')
            tf = (TdmsFile.read if mode.startswith('eager') else TdmsFile.open)(io.BytesIO(data), **kw)
        except Exception as ex:
            ctx.violation('%s/open-raises/%s/%s' % (label, mode, util.exc_key(ex)), {'exc': util.exc_detail(ex), 'pairs': pairs[:5]})
            continue
        try:
            got_groups = [g.name for g in tf.groups()]
            if sorted(got_groups) != sorted({g for g, _ in pairs}):
                ctx.violation('%s/group-set-changed' % label, {'mode': mode, 'got': len(got_groups), 'want': len({g for g, _ in pairs})})
            nchan = sum(len(g.channels()) for g in tf.groups())
            if nchan != len(pairs):
                ctx.violation('%s/channels-merged-or-lost' % label, {'mode': mode, 'got': nchan, 'want': len(pairs)})
            for (g, c), i in ids.items():
                ctx.count('end_to_end_lookups')
                if mode.startswith('lazy'):
                    ctx.count('lazy_lookups')
                try:
                    ch = tf[g][c]
                except KeyError:
                    ctx.violation('%s/lookup-fails' % label, {'mode': mode, 'pair': (g, c)})
                    continue
                try:
                    v = ch[:]
                except Exception as ex:
                    ctx.violation('%s/channel-read-raises/%s/%s' % (label, mode, util.exc_key(ex)), {'pair': (g, c), 'exc': util.exc_detail(ex)})
                    continue
                if len(v) != 1 or int(v[0]) != i or ch.properties.get('id') != i:
                    ctx.violation('%s/lookup-returns-another-channel' % label, {'mode': mode, 'pair': (g, c), 'id': i, 'got': v.tolist(), 'prop': ch.properties.get('id')})
                if ch.name != c or ch.group_name != g or ch.path != M.qpath(g, c):
                    ctx.violation('%s/reported-name-changed' % label, {'mode': mode, 'pair': (g, c), 'name': ch.name, 'group_name': ch.group_name, 'path': ch.path})
                grp = tf[g]
                if grp.name != g or grp.path != M.qpath(g) or (group_props and grp.properties.get('gname') != g):
                    ctx.violation('%s/group-identity' % label, {'mode': mode, 'group': g, 'name': grp.name, 'path': grp.path, 'prop': grp.properties.get('gname')})
            # the lists the file hands out are the caller's: emptying or re-ordering them must not change the file's view
            try:
                lst = tf.groups()
                lst.reverse()
                del lst[:]
                for g_ in tf.groups():
                    cl = g_.channels()
                    cl.sort(key=lambda c_: c_.name, reverse=True)
                    del cl[:]
                ctx.count('handed_out_lists_emptied')
                if sorted(g_.name for g_ in tf.groups()) != sorted({g for g, _ in pairs}) or sum(len(g_.channels()) for g_ in tf.groups()) != len(pairs):
                    ctx.violation('%s/emptying-a-returned-list-changes-the-file' % label, {'mode': mode, 'groups': len(tf.groups()),
                                                                                           'channels': sum(len(g_.channels()) for g_ in tf.groups())})
            except Exception as ex:
                ctx.violation('%s/list-mutation-raises/%s' % (label, util.exc_key(ex)), {'mode': mode})
            # names that do not exist must not resolve to something else (e.g. 'g/c' is not a group although g and c exist)
            gset = {g for g, _ in pairs}
            for (g, c) in list(ids)[:400]:
                for absent in (g + '/' + c, M.qpath(g, c), M.qpath(g), g + c + '\x01'):
                    if absent in gset:
                        continue
                    ctx.count('absent_name_lookups')
                    try:
                        found = absent in tf
                        if found:
                            ctx.violation('%s/absent-group-name-reported-present' % label, {'mode': mode, 'name': absent})
                        tf[absent]
                        ctx.violation('%s/absent-group-name-resolves' % label, {'mode': mode, 'name': absent})
                    except KeyError:
                        pass
                    except Exception as ex:
                        ctx.violation('%s/absent-group-lookup-wrong-exception/%s' % (label, util.exc_key(ex)), {'mode': mode, 'name': absent})
                cset = {c2 for g2, c2 in pairs if g2 == g}
                for absent in (g + '/' + c, c + '/', M.qpath(g, c)):
                    if absent in cset:
                        continue
                    try:
                        if absent in tf[g]:
                            ctx.violation('%s/absent-channel-name-reported-present' % label, {'mode': mode, 'group': g, 'name': absent})
                        tf[g][absent]
                        ctx.violation('%s/absent-channel-name-resolves' % label, {'mode': mode, 'group': g, 'name': absent})
                    except KeyError:
                        pass
                    except Exception as ex:
                        ctx.violation('%s/absent-channel-lookup-wrong-exception/%s' % (label, util.exc_key(ex)), {'mode': mode, 'name': absent})
            if mode == 'lazy' and len(pairs) <= 2000:
                # the file-level chunk stream must hand every channel ITS data under ITS name
                seen = {}
                for chunk in tf.data_chunks():
                    for (g, c), i in ids.items():
                        ctx.count('file_chunk_lookups')
                        cc = chunk[g][c]
                        vals = cc[:]
                        if len(vals):
                            seen.setdefault((g, c), []).extend(int(x) for x in vals)
                        if cc.name != c:
                            ctx.violation('%s/file-chunk-name' % label, {'pair': (g, c), 'name': cc.name})
                wrong = [(k, v) for k, v in ((k, seen.get(k)) for k in ids) if v != [ids[k]]]
                if wrong:
                    ctx.violation('%s/file-chunk-stream-confuses-or-loses-channels' % label, {'examples': wrong[:4]})
        finally:
            tf.close()
            if mm:
                mm.__exit__()


def reordered(ctx, pairs):
    """The same channels listed in a different order in every segment: each channel keeps ITS values."""
    from nptdms import TdmsFile, TdmsWriter, ChannelObject
    rng = random.Random(repr(pairs[:3]))
    ids = {pc: i for i, pc in enumerate(pairs)}
    # built with the independent encoder: TdmsWriter sorts the objects of a segment, other producers do not
    segs = []
    for k in range(3):
        order = list(pairs)
        if k == 1:
            order.reverse()
        elif k == 2:
            rng.shuffle(order)
        sg = M.Seg()
        sg.new_obj_list = True
        # value counts and types differ from channel to channel, so that taking one channel for another shows
        def nvals(pc):
            return 1 + (ids[pc] + k) % 3

        def typ(pc):
            return ('i32', 'f64', 'i16')[ids[pc] % 3]
        sg.listing = [(M.qpath(g, c), 'full', (typ((g, c)), nvals((g, c)), None)) for g, c in order]
        sg.active = [(M.qpath(g, c), True, (typ((g, c)), nvals((g, c)), None)) for g, c in order]
        sg.chunks = [{M.qpath(g, c): np.array([ids[(g, c)] + 1000 * k] * nvals((g, c))).astype(M.TYPES[typ((g, c))][1]) for g, c in order}]
        segs.append(sg)
    buf = io.BytesIO(M.encode_file(segs)[0])
    ctx.count('reordered_segment_files')
    for mode in ('lazy', 'eager'):
        tf = (TdmsFile.open if mode == 'lazy' else TdmsFile.read)(io.BytesIO(buf.getvalue()))
        try:
            order = list(pairs)
            rng.shuffle(order)
            for (g, c) in order:
                want = [ids[(g, c)] + 1000 * k for k in range(3) for _ in range(1 + (ids[(g, c)] + k) % 3)]
                try:
                    got = [int(v) for v in tf[g][c][:].tolist()]
                    one = [int(tf[g][c][j]) for j in (len(want) - 1, 0, len(want) // 2)] if mode == 'lazy' else None
                except Exception as ex:
                    ctx.violation('reordered-segments/raises/%s/%s' % (mode, util.exc_key(ex)), {'pair': (g, c), 'exc': util.exc_detail(ex)})
                    continue
                if got != want or len(tf[g][c]) != len(want) or (one is not None and one != [want[-1], want[0], want[len(want) // 2]]):
                    ctx.violation('reordered-segments/channel-gets-another-channels-values/%s' % mode, {'pair': (g, c), 'got': got, 'want': want})
        finally:
            tf.close()


def e2e_all(case, ctx):
    pairs = [(g, c) for g in W3 for c in W3]
    ctx.evaluation(len(pairs))
    write_read(ctx, pairs, 'all-pairs-file')
    ctx.sample({'case': case, 'pairs_in_one_file': len(pairs), 'examples': pairs[100:104]}, limit=1)


def e2e_groups(case, ctx):
    gs = W3[case['from']:case['from'] + 5]
    pairs = [(g, c) for g in gs for c in W4[::3]]
    ctx.evaluation(len(pairs))
    write_read(ctx, pairs, 'group-block-file')
    write_read(ctx, [(g, c) for g in gs for c in W3[::7]], 'reused-object-file', reuse=True)
    implied(ctx, [(g, c) for g in gs for c in W3[::5]])
    reordered(ctx, [(g, c) for g in gs[:3] for c in W3[::7]][:12])
    concat_ambiguity(ctx, [(gs[0], gs[1 % len(gs)], gs[2 % len(gs)]), ('p', 'q', 'r'), (gs[-1], 'a', gs[0])])


def concat_ambiguity(ctx, names):
    """Object lists whose concatenated path strings coincide although the objects differ:
    segment 1 = groups p, q, r; segment 2 = group p and channel q/r (with data).  Built with the independent encoder."""
    for p_, q_, r_ in names:
        s1 = M.Seg()
        s1.listing = [(M.qpath(x), 'nodata', None) for x in (p_, q_, r_)]
        s1.active = [(M.qpath(x), False, None) for x in (p_, q_, r_)]
        s2 = M.Seg()
        chan = M.qpath(q_, r_)
        s2.listing = [(M.qpath(p_), 'nodata', None), (chan, 'full', ('i32', 2, None))]
        s2.active = [(M.qpath(p_), False, None), (chan, True, ('i32', 2, None))]
        s2.chunks = [{chan: np.array([11, 22], dtype='i4')}, {chan: np.array([33, 44], dtype='i4')}]
        s3 = M.Seg()
        s3.has_meta, s3.new_obj_list = False, False
        s3.active = list(s2.active)
        s3.chunks = [{chan: np.array([55, 66], dtype='i4')}]
        data = M.encode_file([s1, s2, s3])[0]
        from nptdms import TdmsFile
        ctx.count('concat_ambiguity_files')
        for mode in ('eager', 'lazy'):
            tf = (TdmsFile.read if mode == 'eager' else TdmsFile.open)(io.BytesIO(data))
            try:
                ch = tf[q_][r_]
                got = [ch[:].tolist(), ch.read_data(1, 3).tolist(), int(ch[4])]
                if got != [[11, 22, 33, 44, 55, 66], [22, 33, 44], 55]:
                    ctx.violation('objects-confused-across-segments/%s' % mode, {'groups': (p_, q_, r_), 'got': got})
                if sorted(g.name for g in tf.groups()) != sorted({p_, q_, r_}):
                    ctx.violation('objects-confused-across-segments/groups/%s' % mode, {'groups': (p_, q_, r_), 'got': [g.name for g in tf.groups()]})
            except Exception as ex:
                ctx.violation('objects-confused-across-segments/raises/%s/%s' % (mode, util.exc_key(ex)), {'groups': (p_, q_, r_)})
            finally:
                tf.close()


def implied(ctx, pairs):
    """Groups that exist only through their channels (no group object in the file): built with the independent encoder."""
    import struct
    ids = {pc: i for i, pc in enumerate(pairs)}
    s = M.Seg()
    for g, c in pairs:
        p = M.qpath(g, c)
        s.listing.append((p, 'full', ('i32', 1, None)))
        s.props[p] = [('id', 'i32', ids[(g, c)])]
        s.active.append((p, True, ('i32', 1, None)))
    s.chunks = [{M.qpath(g, c): np.array([ids[(g, c)]], dtype='i4') for g, c in pairs}]
    data = M.encode_file([s])[0]
    ctx.count('implied_group_lookups', len(pairs))
    check_identity(ctx, data, pairs, ids, 'implied-group-file', group_props=False)


def unicode_names(case, ctx):
    rng = random.Random('c16u/%d' % case['s'])

    def name():
        n = rng.choice([0, 1, 2, 5, 12])
        out = []
        for _ in range(n):
            r = rng.random()
            if r < 0.3:
                out.append(rng.choice(["'", '/', ' ', '"', '\\', '\t', '\n']))
            elif r < 0.6:
                out.append(chr(rng.randrange(0x20, 0x7f)))
            else:
                cp = rng.choice([rng.randrange(0xA0, 0xD7FF), rng.randrange(0xE000, 0xFFFD), rng.randrange(0x10000, 0x10FFFF)])
                out.append(chr(cp))
        return ''.join(out)
    pairs = list({(name(), name()) for _ in range(40)})
    if case['s'] % 4 == 1:
        # names that differ only in letter case (or fold to the same lower-case form) are different names
        pairs += [('Ua', 'x'), ('ua', 'x'), ('uA', 'X'), ('g', 'Ch'), ('g', 'ch'), ('g', 'CH'), ('\u212a', 'k'), ('k', '\u212a'), ('K', 'k'), ('ß', 'SS'), ('ss', 'ß')]
        pairs = list(dict.fromkeys(pairs))
        ctx.count('case_variant_names')
    if case['s'] % 4 == 0:
        # names longer than 64 KiB (strings read block-wise), multi-byte characters at every alignment, two names that differ only far inside
        unit = rng.choice(['é', '€', '😀', 'aé', 'ab€'])
        long_a = (unit * (70000 // len(unit.encode('utf-8')) + 1))
        long_b = long_a[:40000] + 'X' + long_a[40001:]
        pairs += [(long_a, 'c'), ('g', long_b), (long_b, long_a[:66000])]
        ctx.count('very_long_names', 3)
    ctx.evaluation(len(pairs))
    ctx.count('unicode_names', len(pairs))
    from nptdms.common import ObjectPath
    for g, c in pairs:
        back = ObjectPath.from_string(str(ObjectPath(g, c)))
        if (back.group, back.channel) != (g, c):
            ctx.violation('codec/unicode-roundtrip', {'pair': (g, c)})
        ctx.distinct((g, c))
    write_read(ctx, pairs, 'unicode-file')
    write_read(ctx, pairs, 'unicode-reused-object-file', reuse=True)
    ctx.sample({'case': case, 'names': pairs[:3]}, limit=1)


def evidence_extra(merged, tier):
    return {'exhaustive_core': {'alphabet': ALPHA, 'group_names_up_to_length': 4, 'pairs_up_to_length': 3, 'paths': len(W4) + len(W3) ** 2,
                                'note': 'codec (a) and end-to-end (b) enumerate this space completely in both tiers'}}
