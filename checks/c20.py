"""C20 - npTDMS closes the files it opened, only those, and fails loudly afterwards."""
import io
import os
import random
import struct
import numpy as np

from vlib import model as M, compare as C, util, fdmon
from checks.c04 import scalar_image

ID = 'C20'
LEVEL = 'fault_enumeration'
LEVEL_TEXT = ('Fault enumeration with descriptor accounting: well-formed files and directed corruptions at every parsing stage (bad tag in '
              'first/later segment, lead-in cut, metadata cut, unknown type code, dimension 2, absurd string length, "same" on an unseen '
              'object, type change, index file from another file, index with bad tag, random metadata bytes) x {path, caller stream} x '
              '{no index, matching index, wrong index} x {read, read_metadata, open+close, with-block, writer} are executed; after every '
              'call - while the exception object is still alive and gc is off - /proc/self/fd is scanned for descriptors resolving to the '
              'watched files, caller streams are checked for .closed, ResourceWarnings are captured, and reads after close must raise '
              'or be correct.')
LEVEL_NOTE = ('TdmsFile.open(path) raising is outside the statement (observed and counted only). The audit hook must have seen the library '
              'open the watched paths, otherwise the run is inconclusive.')
TECHNIQUE = 'descriptor/audit monitor (/proc/self/fd diff + sys.addaudithook + ResourceWarning capture) under corruption fault injection'
RULE = ('base files from vlib.model.gen_file; corruption kinds x API x ownership x index; non-trivial = the API raised, or a '
        'close->read->close history ran; distinct = (corruption kind, outcome raised/returned + exception type, API, path|stream, index kind)')
ASSUMPTIONS = ['Linux /proc/self/fd is authoritative for open descriptors', 'the harness closes all files it opens itself (with-blocks)']
REQUIRED = ['writes_after_with_block', 'big_file_calls', 'suspended_iterators_across_close', 'defragment_calls', 'caller_index_streams_checked', 'writer_reuse_blocks', 'api_calls', 'api_raised', 'fd_scans', 'library_open_events', 'after_close_ops', 'caller_streams_checked', 'writer_sessions',
            'index_opened_by_library', 'double_close']
N = {'quick': 40, 'thorough': 1000}

CORRUPTIONS = ['none', 'bad-tag-first', 'bad-tag-later', 'lead-in-cut', 'metadata-cut', 'unknown-type', 'dimension-2', 'absurd-string-length',
               'same-on-unseen', 'type-change', 'random-metadata-byte', 'garbage']
INDEX_KINDS = ['none', 'matching', 'other-file', 'bad-tag', 'truncated', 'empty']


def gen_cases(tier, seed):
    for i in range(N[tier]):
        for ck in CORRUPTIONS:
            reps = 1 if ck != 'random-metadata-byte' else (4 if tier == 'quick' else 12)
            for r in range(reps):
                yield {'s': seed * 1000003 + i, 'corrupt': ck, 'r': r}


def shard_setup(ctx):
    ctx.tmp = util.TempDir('c20')
    ctx.tmpdir = ctx.tmp.__enter__()
    fdmon.install(ctx.tmpdir)


def shard_teardown(ctx):
    ctx.tmp.__exit__()


def base_file(rng):
    while True:
        segs = M.gen_file(rng, max_segs=4, max_chans=3, lens=(1, 2, 3), chunks=(1, 2), p_props=0.3)
        if any(s.chunks for s in segs) and len(segs) >= 2:
            return segs


def corrupt(blob, lay, segs, kind, rng):
    b = bytearray(blob)
    first, later = lay.segs[0], lay.segs[-1]
    if kind == 'none':
        pass
    elif kind == 'bad-tag-first':
        b[0:4] = b'TDSx'
    elif kind == 'bad-tag-later':
        b[later['start']:later['start'] + 4] = b'XXXX'
    elif kind == 'lead-in-cut':
        b = b[:later['start'] + rng.randrange(1, 28)]
    elif kind == 'metadata-cut':
        l = rng.choice([l for l in lay.segs if l['data_start'] - l['meta_start'] > 4] or [first])
        b = b[:rng.randrange(l['meta_start'] + 1, max(l['meta_start'] + 2, l['data_start']))]
    elif kind in ('unknown-type', 'dimension-2', 'absurd-string-length', 'same-on-unseen', 'type-change'):
        e = '<'
        if kind == 'unknown-type':
            obj = M.enc_str(e, "/'x'/'y'") + struct.pack(e + 'IIIQ', 20, 0x7777, 1, 1) + struct.pack(e + 'I', 0)
        elif kind == 'dimension-2':
            obj = M.enc_str(e, "/'x'/'y'") + struct.pack(e + 'IIIQ', 20, 3, 2, 1) + struct.pack(e + 'I', 0)
        elif kind == 'absurd-string-length':
            obj = struct.pack(e + 'I', 0x7FFFFFF0) + b"/'x'"
        elif kind == 'same-on-unseen':
            obj = M.enc_str(e, "/'never'/'seen'") + struct.pack(e + 'I', 0) + struct.pack(e + 'I', 0)
        else:
            p = next((p for p, ix in segs[0].data_objects()), None) or "/'x'/'y'"
            t0 = next((ix[0] for pp, ix in segs[0].data_objects() if pp == p), 'i32')
            code = 10 if t0 != 'f64' else 3
            obj = M.enc_str(e, p) + struct.pack(e + 'IIIQ', 20, code, 1, 1) + struct.pack(e + 'I', 0)
        meta = struct.pack(e + 'I', 1) + obj
        seg = b'TDSm' + struct.pack('<i', 2 | 4) + struct.pack(e + 'iQQ', 4713, len(meta), len(meta)) + meta
        b = b + seg
    elif kind == 'random-metadata-byte':
        l = rng.choice(lay.segs)
        if l['data_start'] > l['meta_start']:
            pos = rng.randrange(l['start'] + 4, l['data_start'])
            b[pos] = rng.randrange(256)
    elif kind == 'garbage':
        b = bytearray(b'TDSm' + M.rand_bytes(rng, rng.randrange(0, 80)))
    return bytes(b)


def index_bytes(kind, idx, rng, other_idx):
    if kind == 'none':
        return None
    if kind == 'matching':
        return idx
    if kind == 'other-file':
        return other_idx
    if kind == 'bad-tag':
        return b'TDSx' + idx[4:]
    if kind == 'truncated':
        return idx[:rng.randrange(4, max(5, len(idx)))]
    if kind == 'empty':
        return b''          # a zero-length index file (left behind by an interrupted writer)


OWN_FDS = set()     # descriptors of file objects the harness itself handed to the library


def scan(ctx, where, info, expect_open=()):
    """No descriptor for watched files may be open now (except the harness's own file objects)."""
    ctx.count('fd_scans')
    fds = fdmon.open_fds()
    leaked = {fd: p for fd, p in fds.items() if fd not in OWN_FDS}
    if leaked:
        kinds = sorted({'index' if p.endswith('_index') else 'data' for p in leaked.values()})
        ctx.violation('fd-leak/%s/%s' % (where, '+'.join(kinds)), dict(info, open=sorted(leaked.values())))
        for fd in leaked:
            try:
                os.close(fd)
            except OSError:
                pass
    ws = [w for w in fdmon.take_warnings() if '.tdms' in w]
    if ws:
        ctx.violation('resource-warning/%s' % where, dict(info, warnings=ws[:3]))


def run_case(case, ctx):
    from nptdms import TdmsFile, TdmsWriter, ChannelObject, RootObject, GroupObject
    rng = random.Random('c20/%d/%s/%d' % (case['s'], case['corrupt'], case['r']))
    segs = base_file(rng)
    blob, idx, lay = M.encode_file(segs)
    other = M.encode_file(base_file(random.Random('c20o/%d' % case['s'])))[1]
    bad = corrupt(blob, lay, segs, case['corrupt'], rng)
    ctx.sample({'case': case, 'file_bytes': len(bad), 'segments': [s.describe() for s in segs][:1]}, limit=2)
    path = os.path.join(ctx.tmpdir, 'f.tdms')
    ipath = path + '_index'
    fresh_vals = None
    if case['corrupt'] == 'none':
        tf = TdmsFile.read(io.BytesIO(blob), raw_timestamps=True)
        fresh_vals = {(g.name, c.name): c[:] for g in tf.groups() for c in g.channels()}
    for ik in INDEX_KINDS:
        ib = index_bytes(ik, idx, rng, other)
        for own in ('path', 'stream', 'pathlib', 'fileobj', 'rawfileobj'):
            if os.path.exists(ipath):
                os.remove(ipath)
            util.write_file(path, bad)
            if ib is not None and own in ('path', 'pathlib', 'fileobj', 'rawfileobj'):
                util.write_file(ipath, ib)       # (beside a caller's file object the index is not used; it must not change who owns what)
            elif ib is not None:
                continue     # an index beside the file is only discovered for paths
            if own in ('pathlib', 'fileobj', 'rawfileobj') and (case['s'] + len(ik) + len(own)) % 3:
                continue     # sampled: these two ownership kinds triple the work otherwise
            for api in ('read', 'read_metadata', 'open-close', 'with', 'open-history', 'ctor-keep-open', 'read-bad-memmap-dir'):
                ctx.evaluation()
                info = {'corrupt': case['corrupt'], 'index': ik, 'own': own, 'api': api, 'case': case}
                fdmon.take_opens()
                fdmon.take_warnings()
                with fdmon.NoGC():
                    one_call(ctx, TdmsFile, api, own, path, bad, info, fresh_vals if ik in ('none', 'matching') else None, rng, ik)
    # ---- chunks of 1 MiB and more (block-size thresholds), results kept alive across close()
    if case['corrupt'] == 'none' and case['r'] == 0 and case['s'] % 8 == 0:
        big_file_case(case, ctx, TdmsFile, path, ipath)
    # ---- a caller-supplied INDEX stream (content starting with TDSh) is a caller stream too
    if case['corrupt'] in ('none', 'garbage', 'bad-tag-later'):
        for api in ('read', 'read_metadata', 'open-close', 'with'):
            ctx.evaluation()
            istream = io.BytesIO(idx if case['corrupt'] == 'none' else (idx[:len(idx) // 2] + b'XXXX' + idx[len(idx) // 2:] if case['corrupt'] == 'bad-tag-later' else b'TDSh' + bad[4:]))
            try:
                if api == 'read':
                    TdmsFile.read(istream)
                elif api == 'read_metadata':
                    TdmsFile.read_metadata(istream)
                elif api == 'open-close':
                    t_ = TdmsFile.open(istream)
                    t_.close()
                    t_.close()
                else:
                    with TdmsFile.open(istream):
                        pass
            except Exception:
                ctx.count('api_raised')
            ctx.count('caller_index_streams_checked')
            if istream.closed:
                ctx.violation('caller-stream-closed/index-stream/%s' % api, {'corrupt': case['corrupt']})
    # ---- TdmsWriter.defragment: opens the source itself; whether it returns or raises nothing may stay open
    if case['corrupt'] in ('none', 'bad-tag-later', 'metadata-cut', 'unknown-type'):
        util.write_file(path, bad)
        if os.path.exists(ipath):
            os.remove(ipath)
        for dest_kind in ('path', 'stream', 'bad-destination', 'bad-index-argument'):
            ctx.evaluation()
            dpath = os.path.join(ctx.tmpdir, 'defrag.tdms')
            fdmon.take_opens()
            fdmon.take_warnings()
            with fdmon.NoGC():
                dstream = io.BytesIO()
                try:
                    if dest_kind == 'path':
                        TdmsWriter.defragment(path, dpath, index_file=True)
                    elif dest_kind == 'stream':
                        TdmsWriter.defragment(path, dstream)
                    elif dest_kind == 'bad-destination':
                        TdmsWriter.defragment(path, os.path.join(ctx.tmpdir, 'no-such-dir', 'x.tdms'))
                    else:
                        TdmsWriter.defragment(path, dpath, index_file='yes')
                    outcome = 'returned'
                except Exception as ex:
                    outcome = 'raised'
                    ctx.count('api_raised')
                    keep_alive = ex
                ctx.count('defragment_calls')
                scan(ctx, 'defragment-%s/%s' % (outcome, dest_kind), {'corrupt': case['corrupt'], 'dest': dest_kind})
                if dstream.closed:
                    ctx.violation('caller-stream-closed/defragment', {'dest': dest_kind})
                keep_alive = None
    # ---- one TdmsWriter object used for several with-blocks (append mode, one block per batch)
    for index in (False, True):
        ctx.evaluation()
        wpath = os.path.join(ctx.tmpdir, 'reuse.tdms')
        for p_ in (wpath, wpath + '_index'):
            if os.path.exists(p_):
                os.remove(p_)
        fdmon.take_opens()
        fdmon.take_warnings()
        with fdmon.NoGC():
            try:
                with TdmsWriter(wpath, index_file=index) as w0:
                    w0.write_segment([ChannelObject('g', 'c', np.arange(2))])
                w = TdmsWriter(wpath, mode='a', index_file=index)
                for batch in range(3):
                    with w:
                        w.write_segment([ChannelObject('g', 'c', np.arange(3))])
                    ctx.count('writer_sessions')
                    scan(ctx, 'writer-reused-object-after-with', {'writer': True, 'reused_writer_object': True, 'block': batch, 'index': index})
                got = TdmsFile.read(wpath)['g']['c'][:]
                if len(got) != 2 + 3 * 3:
                    ctx.violation('writer-reused-object/data-not-flushed', {'len': len(got), 'expected': 11, 'index': index})
                ctx.count('writer_reuse_blocks', 3)
            except Exception as ex:
                ctx.violation('writer-reused-object/raises/%s' % util.exc_key(ex), {'exc': util.exc_detail(ex), 'index': index})
            scan(ctx, 'writer-reused-object-end', {'writer': True, 'index': index})
    # ---- writer sessions
    for own in ('path', 'stream'):
        for index in (False, True):
            for boom in (False, True):
                ctx.evaluation()
                info = {'writer': True, 'own': own, 'index': index, 'exception_inside_with': boom}
                wpath = os.path.join(ctx.tmpdir, 'w.tdms')
                fdmon.take_opens()
                fdmon.take_warnings()
                with fdmon.NoGC():
                    streams = []
                    try:
                        if own == 'path':
                            target, ix = wpath, index
                        else:
                            target = io.BytesIO()
                            ix = io.BytesIO() if index else False
                            streams = [target] + ([ix] if index else [])
                        with TdmsWriter(target, index_file=ix) as w:
                            w.write_segment([RootObject({'a': 1}), GroupObject('g'), ChannelObject('g', 'c', np.arange(3))])
                            if boom:
                                raise KeyError('boom')
                            w.write_segment([ChannelObject('g', 'c', np.arange(2))])
                    except KeyError:
                        pass
                    ctx.count('writer_sessions')
                    scan(ctx, 'writer-after-with', info)
                    # using the writer after its with-block: it may raise, it must not quietly open files again and keep them
                    if own == 'path':
                        try:
                            w.write_segment([ChannelObject('g', 'late', np.arange(2))])
                        except Exception:
                            pass
                        ctx.count('writes_after_with_block')
                        scan(ctx, 'writer-write_segment-after-with', info)
                    for s in streams:
                        ctx.count('caller_streams_checked')
                        if s.closed:
                            ctx.violation('caller-stream-closed/writer', info)
                    if own == 'path':
                        ctx.count('library_open_events', len(fdmon.take_opens()))


def big_file_case(case, ctx, TdmsFile, path, ipath):
    rng = random.Random('c20big/%d' % case['s'])
    n = rng.choice([131072, 131072 + 5, 200000])
    vals = np.arange(2 * n, dtype='f8')
    it = iter([vals[:n], vals[n:]])
    segs = M.build_file(rng, [('g', 'c', 'f64', n, [])], nseg=1, nchunks=(2,), values_fn=lambda p, t, k: next(it))
    blob = M.encode_file(segs)[0]
    if os.path.exists(ipath):
        os.remove(ipath)
    util.write_file(path, blob)
    for api in ('open-close', 'with', 'read'):
        ctx.evaluation()
        info = {'big_file': True, 'values_per_chunk': n, 'api': api}
        fdmon.take_opens()
        fdmon.take_warnings()
        with fdmon.NoGC():
            held = []
            try:
                if api == 'read':
                    tf = TdmsFile.read(path)
                    held.append(tf['g']['c'][:])
                else:
                    tf = TdmsFile.open(path)
                    c = tf['g']['c']
                    held.append(c[n + 1])                                   # the one-chunk cache now holds a 1 MiB chunk
                    held.extend(ch[:] for ch in c.data_chunks())
                    held.extend(fc['g']['c'][:] for fc in tf.data_chunks())
                    held.append(c[:])
                    held.append(c.read_data(3, n))
                    itf = tf.data_chunks()
                    held.extend([itf, next(itf)])
                    tf.close()
                ctx.count('big_file_calls')
                scan(ctx, 'big-file/%s' % api, info)
                if not np.array_equal(np.asarray(held[0]).ravel()[:1], vals[n + 1:n + 2] if api != 'read' else vals[:1]):
                    ctx.violation('big-file/wrong-data', info)
            except Exception as ex:
                ctx.violation('big-file/raises/%s' % util.exc_key(ex), dict(info, exc=util.exc_detail(ex)))
            del held[:]
            tf = None


def one_call(ctx, TdmsFile, api, own, path, bad, info, fresh_vals, rng, ik):
    stream = None
    held = []
    arg = path
    if own == 'stream':
        stream = io.BytesIO(bad)
        arg = stream
    elif own == 'pathlib':
        import pathlib
        arg = pathlib.Path(path)
    elif own in ('fileobj', 'rawfileobj'):
        stream = open(path, 'rb', buffering=0) if own == 'rawfileobj' else open(path, 'rb')      # the caller's own file object: must be left open by the library, closed by us below
        arg = stream
        OWN_FDS.add(stream.fileno())
    raised = None
    tf = None
    ctx.count('api_calls')
    try:
        if api == 'read':
            tf = TdmsFile.read(arg, raw_timestamps=True)
        elif api == 'read_metadata':
            tf = TdmsFile.read_metadata(arg, raw_timestamps=True)
        elif api == 'open-close':
            tf = TdmsFile.open(arg, raw_timestamps=True)
            for g in tf.groups():
                for c in g.channels():
                    c[:]
            tf.close()
        elif api == 'read-bad-memmap-dir':
            # an option that makes the read fail (the directory for memory-mapped data does not exist)
            tf = TdmsFile.read(arg, raw_timestamps=True, memmap_dir=os.path.join(os.path.dirname(path), 'no-such-dir'))
        elif api == 'ctor-keep-open':
            # the constructor's documented keep_open flag: all data is read and the file stays open until close() / the with-block ends
            if rng.random() < 0.5:
                tf = TdmsFile(arg, raw_timestamps=True, keep_open=True)
                for g in tf.groups():
                    for c in g.channels()[:1]:
                        c[:]
                tf.close()
            else:
                with TdmsFile(arg, raw_timestamps=True, keep_open=True) as tf:
                    pass
        elif api == 'with':
            with TdmsFile.open(arg, raw_timestamps=True) as tf:
                for g in tf.groups():
                    for c in g.channels()[:1]:
                        c[:]
        else:
            tf = TdmsFile.open(arg, raw_timestamps=True)
            chans = [c for g in tf.groups() for c in g.channels() if len(c)]
            for c in chans[:2]:
                c[rng.choice([0, len(c) - 1, len(c) // 2])]      # fills the one-chunk cache with some chunk
            # iterators suspended in mid-stream and the arrays they handed out stay referenced across close()
            try:
                it_file = tf.data_chunks()
                fc = next(it_file)
                held.extend([it_file, fc] + [cc[:] for gc_ in fc.groups() for cc in gc_.channels()])
                if chans:
                    it_ch = chans[0].data_chunks()
                    held.extend([it_ch, next(it_ch)[:]])
                ctx.count('suspended_iterators_across_close')
            except StopIteration:
                pass
            tf.close()
            tf.close()
            ctx.count('double_close')
            # reads after close: must raise, or (cache) be correct
            for c in chans[:2]:
                n_ = len(c)
                for i_ in sorted({n_ - 1, n_ // 2, 1 % n_, -1}):
                    ctx.count('after_close_ops')
                    try:
                        got = c[i_]
                    except Exception:
                        continue
                    if fresh_vals is not None and scalar_image(got) != scalar_image(fresh_vals[(c.group_name, c.name)][i_]):
                        ctx.violation('stale-or-wrong-data-after-close/index', dict(info, index=i_, got=repr(got)[:100]))
                for op, fn in (('index0', lambda: c[0]), ('full', lambda: c[:]), ('read_data', lambda: c.read_data(0, 1)),
                               ('chunks', lambda: [x[:] for x in c.data_chunks()]), ('iter', lambda: list(c))):
                    ctx.count('after_close_ops')
                    try:
                        got = fn()
                    except Exception:
                        continue
                    if fresh_vals is None:
                        continue
                    R = fresh_vals[(c.group_name, c.name)]
                    if op == 'index0':
                        ok = scalar_image(got) == scalar_image(R[0])
                    elif op == 'full':
                        ok = C.img_equal(C.image(got), C.image(R))
                    elif op == 'read_data':
                        ok = C.img_equal(C.image(got), C.image(R[0:1]))
                    elif op == 'iter':
                        ok = [scalar_image(v) for v in got] == [scalar_image(v) for v in R]
                    else:
                        ok = C.img_equal(C.image_concat([C.image(x) for x in got], like=C.image(R[:0])), C.image(R), loose_kind=True)
                    if not ok:
                        ctx.violation('stale-or-wrong-data-after-close/%s' % op, dict(info, got=repr(got)[:200]))
            try:
                list(tf.data_chunks())
                if any(len(c) for c in chans):
                    ctx.violation('file-chunk-stream-after-close-returned', info)
            except Exception:
                pass
            # iterators that were suspended in mid-stream when the file was closed: the next chunk needs the file
            for it_ in [h for h in held if hasattr(h, '__next__')]:
                ctx.count('after_close_ops')
                try:
                    nxt = next(it_)
                except StopIteration:
                    continue
                except Exception:
                    continue
                ctx.violation('suspended-iterator-continues-after-close/%s' % own, dict(info, got=type(nxt).__name__))
            tf.close()
    except Exception as ex:
        raised = ex
        ctx.count('api_raised')
        outcome = 'raised:' + type(ex).__name__
        if api in ('read', 'read_metadata', 'read-bad-memmap-dir') or tf is not None:
            # read/read_metadata raised, or an open()ed file was being closed/used: nothing may stay open
            keep = ()
            if api in ('read', 'read_metadata', 'read-bad-memmap-dir'):
                scan(ctx, '%s-raised/%s' % (api, own), info, expect_open=keep)
            else:
                if tf is not None:
                    tf.close()
                scan(ctx, '%s-raised-after-open/%s' % (api, own), info, expect_open=keep)
        else:
            # TdmsFile.open itself raised: outside the statement, observation only
            ctx.count('open_raised_observed')
            if set(fdmon.open_fds()) - OWN_FDS:
                ctx.count('open_raised_left_descriptor_open(observation)')
                for fd in set(fdmon.open_fds()) - OWN_FDS:
                    try:
                        os.close(fd)
                    except OSError:
                        pass
            fdmon.take_warnings()
    else:
        outcome = 'returned'
        scan(ctx, '%s-returned/%s' % (api, own), info)
    opens = fdmon.take_opens()
    if own in ('fileobj', 'rawfileobj'):
        opens = [p for p in opens if not p.endswith('f.tdms')] + []      # our own open() of the data file is not the library's
    if own in ('path', 'pathlib'):
        ctx.count('library_open_events', len(opens))
        if any(p.endswith('_index') for p in opens):
            ctx.count('index_opened_by_library')
        if ik != 'none' and not any(p.endswith('_index') for p in opens):
            ctx.violation('index-beside-file-not-opened', info)
    if stream is not None:
        ctx.count('caller_streams_checked')
        if stream.closed:
            ctx.violation('caller-stream-closed/%s/%s' % (api, own), dict(info, outcome=outcome))
            OWN_FDS.clear()
        elif own in ('fileobj', 'rawfileobj'):
            # the library may have wrapped the caller's object: it must still be open once every library object is gone
            tf = None
            raised = None
            import gc
            gc.collect()
            if stream.closed:
                ctx.violation('caller-stream-closed/after-library-objects-finalised/%s/%s' % (api, own), dict(info, outcome=outcome))
                OWN_FDS.clear()
            else:
                OWN_FDS.discard(stream.fileno())
                stream.close()
    if raised is not None or api == 'open-history':
        ctx.distinct((info['corrupt'], outcome, api, own, ik))
    del held[:]
    del raised
