"""C07 - what TdmsWriter writes is what TdmsFile reads."""
import io
import random
import numpy as np

from vlib import model as M, compare as C, util, writerprog as WP, refparse as RP

ID = 'C07'
LEVEL = 'exploration'
LEVEL_TEXT = ('Random TdmsWriter programs (1-3 sessions incl. append mode and reused streams, 1-5 segments each, root/group/channel objects '
              'with arbitrary names, arrays of every supported dtype as plain/strided/reversed/byte-swapped views, Python lists, strings, '
              'datetime arrays, property values at the 2^31/2^63/2^64 boundaries, floats incl. NaN/inf/-0.0, numpy scalars, '
              'nptdms.types wrappers, datetimes, TdmsTimestamps; versions 4712/4713) run against the real writer while the harness keeps a '
              'shadow accumulation of every accepted call; the file is then read back with the real reader and compared with the shadow '
              '(values bit-exact, dtype rule, last-write properties), and the TDMS property type codes are observed by an independent '
              'parser on the produced bytes.')
LEVEL_NOTE = ('A call that raises is "not accepted": recorded, its partial output removed, the program continues. Strings avoid NUL '
              '(numpy U arrays strip trailing NULs on the caller side). A channel keeps one data kind over all its segments.')
TECHNIQUE = 'shadow-state monitor of random writer programs + independent parse of the produced bytes'
RULE = ('programs from vlib.writerprog.gen_program; non-trivial = >=2 accepted segments touching the same channel or >=1 boundary-valued '
        'property; distinct = (per-session per-segment object kinds/data kinds/lengths, property notes)')
ASSUMPTIONS = ['Python int lists must come back as an integer dtype holding all values (not a specific one)',
               'empty arrays of dtypes without a TDMS mapping carry no type requirement']
REQUIRED = ['containers:generator', 'containers:tuple', 'programs_reusing_objects', 'programs_on_preexisting_empty_file', 'read_back_through_writer_index', 'objects_from_another_file', 'programs', 'segments_accepted', 'channels_compared', 'props_compared', 'prop_types_observed', 'append_sessions', 'path_targets',
            'names_checked']
N = {'quick': 8000, 'thorough': 1000000}


def gen_cases(tier, seed):
    for i in range(N[tier]):
        yield {'s': seed * 1000003 + i}


def shard_setup(ctx):
    ctx.tmp = util.TempDir('c07')
    ctx.tmpdir = ctx.tmp.__enter__()


def shard_teardown(ctx):
    ctx.tmp.__exit__()


def objpath(key):
    return M.qpath(*key)


def prop_equal(spec, got_raw, got_plain):
    e = spec.expect
    if spec.note == 'TdmsTimestamp':
        return hasattr(got_raw, 'seconds') and (int(got_raw.seconds), int(got_raw.second_fractions)) == (e[1], e[2])
    if spec.code == 0x44:
        return isinstance(got_plain, np.datetime64) and got_plain == e and got_plain.dtype == np.dtype('M8[us]')
    if isinstance(e, bool):
        return isinstance(got_plain, (bool, np.bool_)) and bool(got_plain) == e
    if isinstance(e, float):
        if spec.code == 9:
            e = float(np.float32(e))
        return isinstance(got_plain, float) and (got_plain == e or (e != e and got_plain != got_plain)) and \
            (e != 0 or np.signbit(e) == np.signbit(got_plain))
    if isinstance(e, str):
        return isinstance(got_plain, str) and got_plain == e
    return isinstance(got_plain, int) and not isinstance(got_plain, bool) and got_plain == int(e)


def run_case(case, ctx):
    import nptdms
    from nptdms import types as T
    rng = random.Random('c07/%d' % case['s'])
    prog = WP.gen_program(rng, T)
    ctx.evaluation()
    ctx.count('programs')
    if prog.target == 'path':
        ctx.count('path_targets')
    if len(prog.sessions) > 1:
        ctx.count('append_sessions')
    if prog.reuse_objects:
        ctx.count('programs_reusing_objects')
    if prog.precreate_empty:
        ctx.count('programs_on_preexisting_empty_file')
    ctx.count('objects_from_another_file', sum(1 for sess in prog.sessions for seg in sess for o in seg if o['kind'].startswith('tdms')))
    try:
        data, idx, shadow, log = WP.run_program(prog, nptdms, ctx.tmpdir)
    except Exception as ex:
        ctx.violation('writer-session-raises/%s' % util.exc_key(ex), {'exc': util.exc_detail(ex), 'program': prog.describe()})
        return
    for si, gi, what in log:
        ctx.cell('call:' + what.split(':')[0])
        if what == 'data-and-index-file-in-different-directories':
            ctx.violation('writer/relative-path/data-and-index-file-in-different-directories', {'session': si, 'program': prog.describe()})
        if what.startswith('input-array-modified'):
            ctx.violation('writer-modified-the-callers-array/%s' % what.split(':', 1)[1].split(':')[-1], {'kind': what, 'session': si, 'segment': gi, 'program': prog.describe()})
    ctx.count('containers:' + prog.container)
    nacc = sum(1 for l in log if l[2] == 'accepted')
    ctx.count('segments_accepted', nacc)
    ctx.sample({'case': case, 'program': prog.describe(), 'log': log, 'bytes': len(data)}, limit=2)
    if nacc == 0:
        return
    multi = any(len(v) >= 2 for v in shadow.data.values())
    boundary = any(p.note == 'int' and abs(p.value) >= 2 ** 31 - 1 for d in shadow.props.values() for p in d.values())
    if multi or boundary:
        ctx.distinct(repr(prog.describe()['sessions'])[:4000])
    check_readback(ctx, prog, data, shadow)
    if prog.target == 'path' and prog.index:
        # the writer's own index file sits beside the data file: reading by path goes through it
        import os
        from nptdms import TdmsFile
        path = getattr(prog, 'result_path', None) or os.path.join(ctx.tmpdir, prog.fname)
        ctx.count('read_back_through_writer_index')
        try:
            a = C.snapshot(TdmsFile.read(io.BytesIO(data)))
            b = C.snapshot(TdmsFile.read(path))
            diffs = C.snapshot_diff(a, b)
            if diffs:
                ctx.violation('read-through-writer-index-differs/%s' % diffs[0][0], {'diffs': diffs[:3], 'program': prog.describe()})
        except Exception as ex:
            ctx.violation('read-through-writer-index-raises/%s' % util.exc_key(ex), {'exc': util.exc_detail(ex), 'program': prog.describe()})


def check_readback(ctx, prog, data, shadow, where='read'):
    from nptdms import TdmsFile
    desc = prog.describe()
    try:
        raw = TdmsFile.read(io.BytesIO(data), raw_timestamps=True)
        plain = TdmsFile.read(io.BytesIO(data))
    except Exception as ex:
        ctx.violation('%s-raises/%s' % (where, util.exc_key(ex)), {'exc': util.exc_detail(ex), 'program': desc})
        return
    # ---- independent observation of the property type codes
    ptypes = {}
    try:
        segs, findings = RP.parse(data, strict=False)
        for s in segs:
            for o in s['objects']:
                for name, code, val in o['props']:
                    ptypes.setdefault(o['path'], {})[name] = code
    except Exception as ex:
        ctx.violation('independent-parse-crashed/%s' % type(ex).__name__, {'program': desc})
    # ---- objects, names
    for key in shadow.order:
        ctx.count('names_checked')
        try:
            if key == ():
                obj_raw, obj_plain = raw, plain
            elif len(key) == 1:
                obj_raw, obj_plain = raw[key[0]], plain[key[0]]
                if obj_plain.name != key[0] or obj_plain.path != objpath(key):
                    ctx.violation('name-changed/group', {'key': key, 'name': obj_plain.name, 'path': obj_plain.path})
            else:
                obj_raw, obj_plain = raw[key[0]][key[1]], plain[key[0]][key[1]]
                if obj_plain.name != key[1] or obj_plain.group_name != key[0] or obj_plain.path != objpath(key):
                    ctx.violation('name-changed/channel', {'key': key, 'name': obj_plain.name, 'group': obj_plain.group_name, 'path': obj_plain.path})
        except KeyError:
            ctx.violation('object-missing/%s' % ['root', 'group', 'channel'][len(key)], {'key': key, 'program': desc})
            continue
        # ---- properties: last value written, TDMS type
        want = shadow.props.get(key, {})
        got_raw, got_plain = obj_raw.properties, obj_plain.properties
        if set(got_plain.keys()) != set(want.keys()):
            ctx.violation('property-set', {'key': key, 'got': sorted(got_plain.keys()), 'want': sorted(want.keys()), 'program': desc})
        for name, spec in want.items():
            if name not in got_plain:
                continue
            ctx.count('props_compared')
            if not prop_equal(spec, got_raw[name], got_plain[name]):
                ctx.violation('prop-value/%s' % spec.note, {'key': key, 'name': name, 'written': repr(spec.value), 'expected': repr(spec.expect),
                                                         'read': repr(got_plain[name]), 'read_raw': repr(got_raw[name])})
            code = ptypes.get(objpath(key), {}).get(name)
            ctx.count('prop_types_observed')
            if code != spec.code:
                ctx.violation('prop-type/%s' % spec.note, {'key': key, 'name': name, 'written': repr(spec.value), 'tdms_type_code': code, 'expected_code': spec.code})
    # groups implied by channels exist
    for g in shadow.groups_implied:
        if g not in plain:
            ctx.violation('group-missing', {'group': g})
    # ---- channel data
    for key, specs in shadow.data.items():
        try:
            ch = plain[key[0]][key[1]]
        except KeyError:
            continue
        ctx.count('channels_compared')
        nonempty = [s for s in specs if len(s.expect)]
        n = sum(len(s.expect) for s in specs)
        forms = {s.kind.split(':')[-1] for s in nonempty if s.kind.startswith('np:')}
        form = 'byte-swapped-input' if 'swapped' in forms else ('non-contiguous-input' if forms & {'strided', 'reversed'} else 'plain')
        base = specs[0].kind.split(':')[0] + (':' + specs[0].kind.split(':')[1] if ':' in specs[0].kind else '')
        info = {'key': key, 'kinds': [s.kind for s in specs], 'lens': [len(s.expect) for s in specs], 'program': desc}
        try:
            got = ch[:]
        except Exception as ex:
            ctx.violation('channel-read-raises/%s' % util.exc_key(ex), info)
            continue
        if len(ch) != n or len(got) != n:
            ctx.violation('data-length/%s' % base, dict(info, got=len(got), want=n))
            continue
        rule = nonempty[0].dtype_rule if nonempty else specs[0].dtype_rule
        if rule[0] == 'exact':
            want = np.concatenate([np.asarray(s.expect, dtype=rule[1]) for s in specs]) if specs else np.zeros(0, rule[1])
            if not C.img_equal(C.image(got), C.image(want)):
                ctx.violation('data/%s/%s' % (base, form), dict(info, got=C.short(C.image(got)), want=C.short(C.image(want))))
        elif rule[0] == 'int-holding':
            want = [v for s in specs for v in s.expect]
            if got.dtype.kind not in 'iu' or [int(x) for x in got] != want:
                ctx.violation('data/%s' % base, dict(info, got_dtype=str(got.dtype), got=repr(got[:6]), want=want[:6]))
        elif rule[0] == 'object':
            want = [v for s in specs for v in s.expect]
            if got.dtype != object or list(got) != want:
                ctx.violation('data/%s' % base, dict(info, got_dtype=str(got.dtype), got=list(got[:4]), want=want[:4]))
        ctx.cell('kind:' + base)


def finalize(merged, tier):
    reasons = []
    for k in list(WP.DATA_KINDS) + ['tdmschannel:str', 'tdmschannel:ts', 'tdmschannel:f32u', 'tdmschannel:i64']:
        base = k
        if merged['cells'].get('kind:' + base, 0) == 0:
            reasons.append('data kind %s never compared' % base)
    return reasons
