"""C14 - channel.dtype and len(channel) describe what reads return."""
import io
import random
import numpy as np

from vlib import model as M, compare as C, contracts, util, scalegen as SG

ID = 'C14'
LEVEL = 'exploration'
LEVEL_TEXT = ('The full matrix raw type (17) x scaling kind (none + 11 scale types) x eager/lazy x raw_timestamps x byte order, '
              'each with a non-empty and a zero-length channel, is enumerated; on every channel ~14 read operations '
              '(full, windows, empty windows, slices, stepped and empty slices, chunk streams, index container) are executed and '
              'the dtype/shape actually returned is compared with channel.dtype / len(channel). Thorough adds random scale graphs.')
LEVEL_NOTE = ('Only successful reads are judged (reads that raise, e.g. arithmetic scaling of strings, are outside the statement and '
              'counted separately). Trusted: NumPy dtype semantics; byte order is normalised before comparing.')
TECHNIQUE = 'matrix enumeration with a dtype/length monitor on every array returned by the read API'
RULE = ('cells = raw type x scale kind x mode x raw_timestamps x endian x (non-empty | zero-length); a cell is non-trivial when at '
        'least one read succeeded; distinct = the cell tuple')
ASSUMPTIONS = ['byte order is not part of dtype equality', 'raw timestamp dtypes are compared as sets of (field, kind, size)']
REQUIRED = ['short_read_channels', 'long_file_channels', 'memmap_files', 'reads_ok', 'dtype_checked', 'empty_results_checked', 'len_checked']
EXHAUSTIVE = {'quick': False, 'thorough': False}

KINDS = ['none', 'Linear', 'Polynomial', 'Table', 'Add', 'Subtract', 'RTD', 'Thermistor', 'Thermocouple0', 'Thermocouple1',
         'Strain', 'AdvancedAPI', 'Linear-identity', 'Linear-zero', 'Polynomial-identity', 'Polynomial-empty', 'Polynomial-constant',
         'Table-identity', 'Linear-of-Linear', 'Add-of-Linear', 'AdvancedAPI-of-Linear', 'AdvancedAPI-of-AdvancedAPI']


def scale_for(kind):
    if kind == 'none':
        return None
    if kind == 'Linear':
        return [dict(kind='Linear', slope=2.0, intercept=1.0, src=None)]
    if kind == 'Linear-identity':
        return [dict(kind='Linear', slope=1.0, intercept=0.0, src=None)]
    if kind == 'Linear-zero':
        return [dict(kind='Linear', slope=0.0, intercept=0.0, src=SG.RAW)]
    if kind == 'Polynomial-identity':
        return [dict(kind='Polynomial', coeffs=[0.0, 1.0], src=SG.RAW)]
    if kind == 'Polynomial-empty':
        return [dict(kind='Polynomial', coeffs=[], src=SG.RAW)]
    if kind == 'Polynomial-constant':
        return [dict(kind='Polynomial', coeffs=[3.0], src=SG.RAW)]
    if kind == 'Table-identity':
        return [dict(kind='Table', scaled=[0.0, 10.0], pre=[0.0, 10.0], src=SG.RAW)]
    if kind == 'Linear-of-Linear':
        return [dict(kind='Linear', slope=1.0, intercept=0.0, src=SG.RAW), dict(kind='Linear', slope=1.0, intercept=0.0, src=0)]
    if kind == 'AdvancedAPI-of-Linear':
        return [dict(kind='Linear', slope=2.0, intercept=1.0, src=SG.RAW), dict(kind='AdvancedAPI', src=0)]
    if kind == 'AdvancedAPI-of-AdvancedAPI':
        return [dict(kind='AdvancedAPI', src=SG.RAW), dict(kind='AdvancedAPI', src=0)]
    if kind == 'Add-of-Linear':
        return [dict(kind='Linear', slope=1.0, intercept=0.0, src=SG.RAW), dict(kind='Add', left=0, right=SG.RAW)]
    if kind == 'Polynomial':
        return [dict(kind='Polynomial', coeffs=[1.0, 0.5, 0.25], src=SG.RAW)]
    if kind == 'Table':
        return [dict(kind='Table', scaled=[0.0, 1.0, 5.0], pre=[1.0, 2.0, 4.0], src=SG.RAW)]
    if kind in ('Add', 'Subtract'):
        return [dict(kind=kind, left=SG.RAW, right=SG.RAW)]
    if kind == 'RTD':
        return [dict(kind='RTD', current=1e-3, r0=100.0, a=3.9083e-3, b=-5.775e-7, c=-4.183e-12, lead=0.0, config=4, src=SG.RAW)]
    if kind == 'Thermistor':
        return [dict(kind='Thermistor', exc_type=10134, exc_value=1e-4, config=4, r1=5000.0, lead=0.0,
                     a=1.295361e-3, b=2.343159e-4, c=1.018703e-7, t_offset=0.0, src=SG.RAW)]
    if kind.startswith('Thermocouple'):
        return [dict(kind='Thermocouple', tc_type=10073, direction=int(kind[-1]), src=SG.RAW)]
    if kind == 'Strain':
        return [dict(kind='Strain', config=10183, poisson=0.3, gage_r=350.0, lead=0.0, v_init=0.0, gf=2.0, gain=1.0, v_ex=2.5, src=SG.RAW)]
    if kind == 'AdvancedAPI':
        return [dict(kind='AdvancedAPI', src=SG.RAW)]
    raise ValueError(kind)


def gen_cases(tier, seed):
    for t in M.ALL_TYPES:
        for kind in KINDS:
            if kind != 'none' and t in ('str', 'ts', 'c64', 'c128'):
                continue    # NI scaling is defined on real numeric raw data only (DESIGN.md C14)
            for e in '<>':
                yield {'k': 'cell', 't': t, 'scale': kind, 'e': e, 's': seed}
                if M.TYPES[t][2] is not None and kind in ('none', 'Linear', 'AdvancedAPI', 'Add'):
                    yield {'k': 'cell', 't': t, 'scale': kind, 'e': e, 's': seed, 'il': True}     # interleaved layout
    for i in range(500000 if tier == 'thorough' else 1500):
        yield {'k': 'graph', 's': seed * 1000003 + i}
    for i in range(2000 if tier == 'thorough' else 24):
        yield {'k': 'long', 's': seed * 1000003 + i}
    for i in range(400 if tier == 'thorough' else 12):
        yield {'k': 'short-reads', 's': seed * 1000003 + i}


def small_values(p, t, n):
    if t == 'str':
        return ['ab'] * n + ([] if True else [])
    if t == 'ts':
        return [(3600000000 + i, 2 ** 63) for i in range(n)]
    dt = M.TYPES[t][1]
    if dt == '?':
        return np.array([i % 2 for i in range(n)], dtype='?')
    return (np.arange(n) % 3 + 1).astype(dt)


def build(case):
    rng = random.Random('c14/' + repr(sorted(case.items())))
    if case['k'] == 'cell':
        t = case['t']
        sc = scale_for(case['scale'])
        props = SG.graph_props(sc) if sc else []
        chans = [('g', 'full', t, 3, props), ('g', 'empty', t, 0, props)]

        def vf(p, tt, n):
            if tt == 'str':
                return ['abc'] * n
            return small_values(p, tt, n)
        if case.get('il'):
            # interleaved: all channels of a segment have the same length, so the empty channel lives in its own segment list
            chans = [('g', 'full', t, 3, props), ('g', 'other', 'i16', 3, [])]
            segs = M.build_file(rng, chans, nseg=2, nchunks=(2, 1), endian=case['e'], values_fn=vf, continuation='same', inter=True)
            return segs, rng
        segs = M.build_file(rng, chans, nseg=2, nchunks=(2, 1), endian=case['e'], values_fn=vf, continuation='same')
        return segs, rng
    t = rng.choice(M.NUMERIC_REAL + ['bool'])
    sc = SG.gen_graph(rng)
    props = SG.graph_props(sc, with_count=rng.random() < 0.7)
    chans = [('g', 'full', t, rng.choice([1, 3, 4]), props), ('g', 'empty', t, 0, props)]
    segs = M.build_file(rng, chans, nseg=rng.randint(1, 3), nchunks=(1, 2), endian=rng.choice('<>'), values_fn=small_values)
    return segs, rng


def judge(ctx, ch, what, got, cell, expect_len=None):
    """One monitored read result."""
    ctx.count('reads_ok')
    if not isinstance(got, np.ndarray):
        ctx.violation('non-array/%s/%s' % (cell[0], type(got).__name__), {'cell': cell, 'op': what, 'type': type(got).__name__})
        return
    ctx.count('dtype_checked')
    if len(got) == 0:
        ctx.count('empty_results_checked')
    if got.dtype != ch.dtype:
        kind = 'empty' if len(got) == 0 else 'nonempty'
        rawk = 'raw-timestamp' if (cell[0] == 'ts' and cell[3]) else cell[0]
        ctx.violation('dtype/%s/%s' % (rawk, cell[1]),
                      {'cell': cell, 'op': what, 'declared': str(ch.dtype), 'returned': str(got.dtype), 'n': len(got)})
    if got.ndim != 1:
        ctx.violation('shape/%s' % what, {'cell': cell, 'shape': got.shape})
    if expect_len is not None:
        ctx.count('len_checked')
        if len(got) != expect_len:
            ctx.violation('len/%s' % what, {'cell': cell, 'len(channel)': expect_len, 'returned': len(got)})


def long_case(case, ctx):
    """More than 100 segments, channels whose per-segment counts agree for a long prefix: len(channel) against every full read."""
    from nptdms import TdmsFile
    from checks.c05 import long_file
    rng = random.Random('c14l/%d' % case['s'])
    segs = long_file(rng)
    blob = M.encode_file(segs)[0]
    exp = M.Expected(segs)
    for mode in ('lazy', 'eager'):
        tf = (TdmsFile.open if mode == 'lazy' else TdmsFile.read)(io.BytesIO(blob))
        chans = [c for g in tf.groups() for c in g.channels()]
        rng.shuffle(chans)
        for ch in chans:
            ctx.evaluation()
            cell = ('long', 'none', mode, False, '<', ch.name)
            n = len(ch)
            ctx.count('long_file_channels')
            if n != exp.length(ch.path):
                ctx.violation('len/differs-from-file/long', {'cell': cell, 'len(channel)': n, 'values_in_file': exp.length(ch.path), 'segments': len(segs)})
            for what, fn in (('[:]', lambda: ch[:]), ('read_data()', lambda: ch.read_data()), ('iter', lambda: np.array(list(ch)))):
                try:
                    got = fn()
                except Exception:
                    ctx.count('reads_raising')
                    continue
                judge(ctx, ch, what, got, cell, n)
            if mode == 'lazy':
                try:
                    total = sum(len(c_[:]) for c_ in ch.data_chunks())
                    ctx.count('len_checked')
                    if total != n:
                        ctx.violation('len/chunk-stream', {'cell': cell, 'sum': total, 'len': n})
                except Exception:
                    ctx.count('reads_raising')
            ctx.distinct(cell + (len(segs),))
        if mode == 'lazy':
            tf.close()


def short_read_case(case, ctx):
    """Chunks of tens of kilobytes read through an unbuffered stream that returns at most 4 KiB per call."""
    from nptdms import TdmsFile
    from checks.c03 import ShortReadStream
    rng = random.Random('c14s/%d' % case['s'])
    n = rng.choice([5000, 20000, 8192])
    t = rng.choice(['f64', 'i32', 'i16'])
    inter = rng.random() < 0.4
    segs = M.build_file(rng, [('g', 'a', t, n, []), ('g', 'b', 'u8', n if inter else 7, [])], nseg=rng.randint(1, 2), nchunks=(rng.randint(1, 2),),
                        endian=rng.choice('<>'), inter=inter, values_fn=lambda p, tt, k: (np.arange(k) % 200).astype(M.TYPES[tt][1]))
    blob = M.encode_file(segs)[0]
    exp = M.Expected(segs)
    for mode in ('lazy', 'eager'):
        try:
            tf = (TdmsFile.open if mode == 'lazy' else TdmsFile.read)(ShortReadStream(blob, 4096))
        except Exception:
            ctx.count('reads_raising')
            continue
        for ch in [c for g in tf.groups() for c in g.channels()]:
            ctx.evaluation()
            cell = ('short-reads', 'none', mode, False, segs[0].endian + ('/interleaved' if inter else ''), ch.name)
            ln = len(ch)
            ctx.count('short_read_channels')
            if ln != exp.length(ch.path):
                ctx.violation('len/differs-from-file/short-reads', {'cell': cell, 'len(channel)': ln, 'values_in_file': exp.length(ch.path)})
            for what, fn in (('[:]', lambda: ch[:]), ('read_data()', lambda: ch.read_data()), ('iter', lambda: np.array(list(ch)))):
                try:
                    got = fn()
                except Exception:
                    ctx.count('reads_raising')
                    continue
                judge(ctx, ch, what, got, cell, ln)
            if mode == 'lazy':
                try:
                    total = sum(len(c_[:]) for c_ in ch.data_chunks())
                    ctx.count('len_checked')
                    if total != ln:
                        ctx.violation('len/chunk-stream', {'cell': cell, 'sum': total, 'len': ln})
                    total = sum(len(fc['g'][ch.name][:]) for fc in tf.data_chunks())
                    if total != ln:
                        ctx.violation('len/file-chunk-stream', {'cell': cell, 'sum': total, 'len': ln})
                except Exception:
                    ctx.count('reads_raising')
            ctx.distinct(cell + (n,))
        if mode == 'lazy':
            tf.close()


def run_case(case, ctx):
    from nptdms import TdmsFile
    if case['k'] == 'long':
        return long_case(case, ctx)
    if case['k'] == 'short-reads':
        return short_read_case(case, ctx)
    segs, rng = build(case)
    blob, _, _ = M.encode_file(segs)
    for raw_ts in ((False, True) if (case['k'] == 'cell' and case['t'] == 'ts') else (False,)):
        for mode in ('eager', 'lazy', 'metadata', 'eager-memmap', 'lazy-memmap'):
            cellbase = (case.get('t', 'graph'), case.get('scale', 'graph'), mode, raw_ts, case.get('e', '?') + ('/interleaved' if case.get('il') else ''))
            try:
                if mode.endswith('memmap'):
                    tf = {'eager-memmap': TdmsFile.read, 'lazy-memmap': TdmsFile.open}[mode](io.BytesIO(blob), raw_timestamps=raw_ts, memmap_dir=ctx.tmpdir)
                    ctx.count('memmap_files')
                else:
                    tf = {'eager': TdmsFile.read, 'lazy': TdmsFile.open, 'metadata': TdmsFile.read_metadata}[mode](io.BytesIO(blob), raw_timestamps=raw_ts)
            except Exception as ex:
                ctx.violation('open-raises/%s' % util.exc_key(ex), {'cell': cellbase})
                continue
            for cname in (('full',) if case.get('il') else ('full', 'empty')):
                ch = tf['g'][cname]
                cell = cellbase + (cname,)
                ctx.evaluation()
                n = len(ch)
                ok = 0
                ops = [
                    ('[:]', lambda: ch[:], n), ('read_data()', lambda: ch.read_data(), n), ('[...]', lambda: ch[...], n),
                    ('read_data(1,2)', lambda: ch.read_data(1, 2), None), ('read_data(n,5)', lambda: ch.read_data(n, 5), 0),
                    ('read_data(0,0)', lambda: ch.read_data(0, 0), 0), ('[1:3]', lambda: ch[1:3], None), ('[5:2]', lambda: ch[5:2], 0),
                    ('[n:]', lambda: ch[n:], 0), ('[::-2]', lambda: ch[::-2], None), ('[2:2]', lambda: ch[2:2], 0),
                    ('[-1:0:-1]', lambda: ch[-1:0:-1], None),
                ]
                ops.append(('.data', lambda: ch.data, n))       # lazily opened: only legal for zero-length channels (else it raises)

                def after_index(sl):
                    ch[0]
                    return ch[sl]
                ops += [('[0] then [0:2]', lambda: after_index(slice(0, 2)), None), ('[0] then [1:1]', lambda: after_index(slice(1, 1)), 0),
                        ('[0] then [::2]', lambda: after_index(slice(None, None, 2)), None),
                        ('[0] then read_data(0,2)', lambda: (ch[0], ch.read_data(0, 2))[1], None)]
                for what, fn, want_len in ops:
                    try:
                        got = fn()
                    except Exception as ex:
                        ctx.count('reads_raising')
                        ctx.cell('raises:%s:%s' % (cell[0], cell[1]))
                        continue
                    ok += 1
                    judge(ctx, ch, what, got, cell, want_len)
                if mode.startswith('lazy'):
                    try:
                        chunks = list(ch.data_chunks())
                        total, raised = 0, False
                        for chunk in chunks:
                            for what, fn in (('chunk[:]', lambda: chunk[:]), ('chunk[0:0]', lambda: chunk[0:0]), ('chunk[1:]', lambda: chunk[1:])):
                                try:
                                    got = fn()
                                except Exception:
                                    ctx.count('reads_raising')
                                    raised = True
                                    continue
                                ok += 1
                                judge(ctx, ch, what, got, cell)
                                if what == 'chunk[:]':
                                    total += len(got)
                        if chunks and not raised:
                            ctx.count('len_checked')
                            if total != n:
                                ctx.violation('len/chunk-stream', {'cell': cell, 'sum': total, 'len': n})
                        # file-level stream
                        for fchunk in tf.data_chunks():
                            cc = fchunk['g'][cname]
                            try:
                                got = cc[:]
                            except Exception:
                                ctx.count('reads_raising')
                                continue
                            ok += 1
                            judge(ctx, ch, 'filechunk[:]', got, cell)
                    except Exception as ex:
                        ctx.count('reads_raising')
                if ok:
                    ctx.distinct(cell)
                    ctx.cell('ok:%s:%s' % (cell[0], cell[1]))
            if mode != 'eager':
                tf.close()
    ctx.sample({'case': case, 'segments': [s.describe() for s in segs][:1]}, limit=2)


def shard_setup(ctx):
    contracts.install()
    ctx.tmp = util.TempDir('c14')
    ctx.tmpdir = ctx.tmp.__enter__()


def shard_teardown(ctx):
    contracts.drain(ctx)
    ctx.tmp.__exit__()


def finalize(merged, tier):
    reasons = []
    numeric = M.NUMERIC_REAL + ['f32u', 'f64u', 'bool']
    for t in numeric:
        for k in KINDS:
            if merged['cells'].get('ok:%s:%s' % (t, k), 0) == 0:
                reasons.append('matrix cell (%s, %s) had no successful read' % (t, k))
    for t in ('str', 'ts', 'c64', 'c128'):
        if merged['cells'].get('ok:%s:none' % t, 0) == 0:
            reasons.append('matrix cell (%s, none) had no successful read' % t)
    return reasons
