"""C18 - thermocouple conversions follow the NIST ITS-90 reference functions."""
import io
import random
import numpy as np

from vlib import model as M, util, scalegen as SG

ID = 'C18'
LEVEL = 'exploration'
LEVEL_TEXT = ('Dense-grid + boundary monitor against the NIST ITS-90 coefficient tables (taken as data from thermocouples_reference and '
              'evaluated by our own Horner): for all eight types the real celsius_to_mv must equal the reference on >= 10^5 grid points '
              'over the whole range (difference bounded by 4 eps x sum|c_i T^i|), take at every piece boundary and at its floating-point '
              'neighbours the value of one of the two adjacent reference pieces, be continuous there and strictly increasing wherever '
              'the reference is; mv_to_celsius(reference(T)) - T must lie inside the NIST-stated inverse error band of the piece over the '
              'NIST inverse validity range; both directions must be total (no NaN); ThermocoupleScaling must apply the configured '
              'direction with the microvolt convention, directly and through TdmsChannel[:].')
LEVEL_NOTE = ('Trusted: the coefficient data of thermocouples_reference (NIST SRD 60); its own evaluator is not used. NIST inverse error '
              'bands (as rounded in the NIST tables) are applied with 25% + 2e-3 K slack and merged within 0.1 K of a piece boundary; observed error extrema per type are reported in the evidence.')
TECHNIQUE = 'dense grid sweep + explicit boundary probing against NIST reference tables (analytical oracle)'
RULE = ('8 types x {forward, inverse, totality, boundaries, scaling}; grid blocks of 12,500 points; non-trivial = every grid block; distinct = '
        '(type, part, block)')
ASSUMPTIONS = ['NIST inverse functions are only specified on their validity range; outside it only totality (no NaN) is required']
REQUIRED = ['scalar_boundary_probes', 'default_type_cases', 'shape_totality_calls', 'block_size_points', 'window_pairs', 'single_precision_channels', 'chained_scalings', 'default_direction_cases', 'purity_calls', 'forward_points', 'inverse_points', 'boundary_probes', 'monotone_pairs', 'totality_points', 'scaling_points', 'through_channel']
TYPES = 'BEJKNRST'
CODES = {'B': 10047, 'E': 10055, 'J': 10072, 'K': 10073, 'N': 10077, 'R': 10082, 'S': 10085, 'T': 10086}
BANDS = {
    'B': [(250, 700, -0.02, 0.03), (700, 1820, -0.01, 0.02)],
    'E': [(-200, 0, -0.01, 0.03), (0, 1000, -0.02, 0.02)],
    'J': [(-210, 0, -0.05, 0.03), (0, 760, -0.04, 0.04), (760, 1200, -0.04, 0.03)],
    'K': [(-200, 0, -0.02, 0.04), (0, 500, -0.05, 0.04), (500, 1372, -0.05, 0.06)],
    'N': [(-200, 0, -0.02, 0.03), (0, 600, -0.02, 0.03), (600, 1300, -0.04, 0.02)],
    'R': [(-50, 250, -0.02, 0.02), (250, 1064, -0.005, 0.005), (1064, 1664.5, -0.0005, 0.001), (1664.5, 1768.1, -0.001, 0.002)],
    'S': [(-50, 250, -0.02, 0.02), (250, 1064, -0.01, 0.01), (1064, 1664.5, -0.0002, 0.0002), (1664.5, 1768.1, -0.002, 0.002)],
    'T': [(-200, 0, -0.02, 0.04), (0, 400, -0.03, 0.03)],
}
BLOCKS = {'quick': 8, 'thorough': 4000}
BLOCK = 12500


def gen_cases(tier, seed):
    for L in TYPES:
        for b in range(BLOCKS[tier]):
            yield {'k': 'forward', 't': L, 'b': b, 'nb': BLOCKS[tier]}
            yield {'k': 'inverse', 't': L, 'b': b, 'nb': BLOCKS[tier]}
        yield {'k': 'boundaries', 't': L}
        yield {'k': 'sizes', 't': L}
        yield {'k': 'totality', 't': L}
        for d in (0, 1):
            yield {'k': 'scaling', 't': L, 'd': d, 's': seed}


def ref_table(L):
    import thermocouples_reference as tr
    return tr.thermocouples[L].func.table


def horner(asc, x):
    acc = np.zeros_like(x) + asc[-1]
    for c in asc[-2::-1]:
        acc = acc * x + c
    return acc


def piece_value(piece, T):
    tmin, tmax, pc, ec = piece
    v = horner(pc[::-1], T)
    if ec is not None:
        v = v + ec[0] * np.exp(ec[1] * (T - ec[2]) ** 2)
    return v


def piece_bound(piece, T):
    tmin, tmax, pc, ec = piece
    b = horner(np.abs(pc[::-1]), np.abs(T))
    if ec is not None:
        b = b + abs(ec[0])
    return b


def ref_eval(table, T):
    out = np.full(T.shape, np.nan)
    bound = np.full(T.shape, np.nan)
    for i, piece in enumerate(table):
        m = (T >= piece[0]) & ((T < piece[1]) if i < len(table) - 1 else (T <= piece[1]))
        out[m] = piece_value(piece, T[m])
        bound[m] = piece_bound(piece, T[m])
    return out, bound


def impl(L):
    import nptdms.thermocouples as tc
    return getattr(tc, 'type_' + L.lower())


def warm_up_with_single_precision(L):
    """The first data a process converts may be float32: whatever the implementation keeps from that call must not
    degrade later float64 conversions."""
    try:
        th = impl(L)
        with np.errstate(all='ignore'):
            th.celsius_to_mv(np.linspace(-250, 1800, 64).astype('f4'))
            th.mv_to_celsius(np.linspace(-10, 70, 64).astype('f4'))
    except Exception:
        pass


def run_case(case, ctx):
    if 't' in case:
        warm_up_with_single_precision(case['t'])
    {'forward': forward, 'inverse': inverse, 'boundaries': boundaries, 'totality': totality, 'scaling': scaling, 'sizes': sizes}[case['k']](case, ctx)


def grid(lo, hi, b, nb):
    edges = np.linspace(lo, hi, nb + 1)
    return np.linspace(edges[b], edges[b + 1], BLOCK)


def forward(case, ctx):
    L = case['t']
    table = ref_table(L)
    T = grid(table[0][0], table[-1][1], case['b'], case['nb'])
    want, bound = ref_eval(table, T)
    got = impl(L).celsius_to_mv(T.copy())
    ctx.evaluation(len(T))
    ctx.count('forward_points', len(T))
    ctx.distinct((L, 'forward', case['b']))
    tol = 4 * np.finfo('f8').eps * bound + 1e-300
    bad = ~(np.abs(got - want) <= tol)
    if bad.any():
        i = int(np.nonzero(bad)[0][0])
        ctx.violation('forward-differs-from-NIST/%s' % L, {'T': float(T[i]), 'got_mV': float(got[i]), 'reference_mV': float(want[i]), 'count': int(bad.sum())})
    # strictly increasing wherever the reference is
    inc = np.diff(want) > 0
    ctx.count('monotone_pairs', int(inc.sum()))
    viol = inc & ~(np.diff(got) > 0)
    if viol.any():
        i = int(np.nonzero(viol)[0][0])
        ctx.violation('forward-not-increasing/%s' % L, {'T': float(T[i]), 'T_next': float(T[i + 1]), 'v': float(got[i]), 'v_next': float(got[i + 1])})
    ctx.sample({'case': case, 'T_range': [float(T[0]), float(T[-1])]}, limit=1)


def sizes(case, ctx):
    """Array lengths at powers of two and their multiples, kept inside one piece and spread over all pieces."""
    L = case['t']
    table = ref_table(L)
    th = impl(L)
    for n in (32768, 65536, 3 * 32768, 65537, 4096, 1 << 17):
        for lo, hi in [(table[0][0], table[-1][1])] + [(p[0], p[1]) for p in table]:
            T = np.linspace(lo, hi, n, endpoint=False)
            want, bound = ref_eval(table, T)
            got = th.celsius_to_mv(T.copy())
            ctx.evaluation(n)
            ctx.count('block_size_points', n)
            bad = ~(np.abs(got - want) <= 4 * np.finfo('f8').eps * bound + 1e-300)
            if bad.any():
                i = int(np.nonzero(bad)[0][0])
                ctx.violation('forward-differs-from-NIST/array-length-dependent/%s' % L, {'n': n, 'index': i, 'T': float(T[i]), 'got': float(got[i]), 'want': float(want[i])})
            lo_i, hi_i = BANDS[L][0][0], BANDS[L][-1][1]
            Ti = np.linspace(max(lo, lo_i), min(hi, hi_i), n, endpoint=False) if max(lo, lo_i) < min(hi, hi_i) else None
            if Ti is not None:
                V, _ = ref_eval(table, Ti)
                err = th.mv_to_celsius(V.copy()) - Ti
                blo, bhi = band_for(L, Ti)
                badi = ~((err >= blo) & (err <= bhi))
                if badi.any():
                    i = int(np.nonzero(badi)[0][0])
                    ctx.violation('inverse-outside-NIST-error-band/array-length-dependent/%s' % L, {'n': n, 'index': i, 'T': float(Ti[i]), 'error': float(err[i])})
    ctx.distinct((L, 'sizes'))


def band_for(L, T):
    lo = np.full(T.shape, np.inf)
    hi = np.full(T.shape, -np.inf)
    for a, b, e0, e1 in BANDS[L]:
        m = (T >= a - 0.1) & (T <= b + 0.1)
        lo[m] = np.minimum(lo[m], e0 * 1.25 - 2e-3)
        hi[m] = np.maximum(hi[m], e1 * 1.25 + 2e-3)
    return lo, hi


def inverse(case, ctx):
    L = case['t']
    table = ref_table(L)
    T = grid(BANDS[L][0][0], BANDS[L][-1][1], case['b'], case['nb'])
    V, _ = ref_eval(table, T)
    got = impl(L).mv_to_celsius(V.copy())
    err = got - T
    lo, hi = band_for(L, T)
    ctx.evaluation(len(T))
    ctx.count('inverse_points', len(T))
    ctx.distinct((L, 'inverse', case['b']))
    ctx.cell('inverse-error-min:%s:%.5f' % (L, float(np.nanmin(err))))
    ctx.cell('inverse-error-max:%s:%.5f' % (L, float(np.nanmax(err))))
    bad = ~((err >= lo) & (err <= hi))
    if bad.any():
        i = int(np.nonzero(bad)[0][0])
        ctx.violation('inverse-outside-NIST-error-band/%s' % L, {'true_T': float(T[i]), 'mV': float(V[i]), 'got_T': float(got[i]), 'error': float(err[i]),
                                                              'band': [float(lo[i]), float(hi[i])], 'count': int(bad.sum())})


def boundaries(case, ctx):
    L = case['t']
    table = ref_table(L)
    th = impl(L)
    ctx.evaluation()
    ctx.distinct((L, 'boundaries'))
    # scalars (Python float, NumPy scalar, 0-d array) exactly on, and next to, every piece boundary of both directions give what
    # the same value gives inside an array
    fwd_edges = [float(table[i_][0]) for i_ in range(1, len(table))]
    try:
        # the inverse pieces are not part of the reference tables: their boundaries are read off the implementation (probe points only)
        inv_edges = sorted({float(v_) for p_ in th._inverse_polynomials for v_ in (p_.applicable_range.start, p_.applicable_range.end) if v_ is not None})
    except Exception:
        inv_edges = []
    for name_, fn_, edges in (('forward', th.celsius_to_mv, fwd_edges), ('inverse', th.mv_to_celsius, inv_edges)):
        for b_ in edges:
            for v_ in (b_, float(np.nextafter(b_, -np.inf)), float(np.nextafter(b_, np.inf))):
                want_ = float(np.asarray(fn_(np.array([v_, v_])))[0])
                for kind_, arg_ in (('python-float', v_), ('numpy-scalar', np.float64(v_)), ('zero-d-array', np.array(v_))):
                    ctx.count('scalar_boundary_probes')
                    try:
                        got_ = float(np.asarray(fn_(arg_)))
                    except Exception as ex:
                        ctx.violation('%s/scalar-input-raises/%s/%s' % (name_, kind_, util.exc_key(ex)), {'type': L, 'value': v_})
                        continue
                    if got_ != want_ and not (got_ != got_ and want_ != want_):
                        ctx.violation('%s/scalar-differs-from-array/%s/%s' % (name_, kind_, L), {'value': v_, 'scalar': got_, 'array': want_})
    for i in range(1, len(table)):
        b = table[i][0]
        pts = np.array([np.nextafter(np.nextafter(b, -np.inf), -np.inf), np.nextafter(b, -np.inf), b, np.nextafter(b, np.inf), np.nextafter(np.nextafter(b, np.inf), np.inf)])
        got = th.celsius_to_mv(pts.copy())
        left, right = piece_value(table[i - 1], pts), piece_value(table[i], pts)
        for k in range(len(pts)):
            ctx.count('boundary_probes')
            tol = 4 * np.finfo('f8').eps * max(piece_bound(table[i - 1], pts[k:k + 1])[0], piece_bound(table[i], pts[k:k + 1])[0])
            if not (abs(got[k] - left[k]) <= tol or abs(got[k] - right[k]) <= tol):
                ctx.violation('forward-boundary-value/%s' % L, {'boundary': b, 'T': float(pts[k]), 'got': float(got[k]), 'left_piece': float(left[k]), 'right_piece': float(right[k])})
        if abs(got[1] - got[2]) > 1e-6:
            ctx.violation('forward-discontinuous-at-boundary/%s' % L, {'boundary': b, 'jump_mV': float(got[2] - got[1])})
    # inverse boundaries (positions are the implementation's own): continuity within the two adjacent NIST error bands
    for p in th._inverse_polynomials[1:]:
        v = p.applicable_range.start
        pts = np.array([np.nextafter(v, -np.inf), v, np.nextafter(v, np.inf)])
        got = th.mv_to_celsius(pts.copy())
        ctx.count('boundary_probes', 3)
        width = max(abs(x) for band in BANDS[L] for x in band[2:]) * 2.2 + 2e-4
        if np.isnan(got).any() or abs(got[1] - got[0]) > width or abs(got[2] - got[1]) > 1e-9 + 1e-3:
            ctx.violation('inverse-discontinuous-at-boundary/%s' % L, {'boundary_mV': v, 'values': got.tolist(), 'allowed_jump': width})
    ctx.sample({'case': case, 'forward_boundaries': [t[0] for t in table[1:]], 'inverse_boundaries_mV': [p.applicable_range.start for p in th._inverse_polynomials[1:]]}, limit=1)


def totality(case, ctx):
    L = case['t']
    th = impl(L)
    T = np.concatenate([np.linspace(-400, 2500, 20001), np.array([-273.15, 0.0, -0.0, 1e-300, 1e6, -1e6])])
    V = np.concatenate([np.linspace(-20, 90, 20001), np.array([0.0, -0.0, 1e-300, 1e4, -1e4])])
    ctx.evaluation(len(T) + len(V))
    ctx.count('totality_points', len(T) + len(V))
    ctx.distinct((L, 'totality'))
    with np.errstate(all='ignore'):
        f = th.celsius_to_mv(T.copy())
        g = th.mv_to_celsius(V.copy())
    if np.isnan(f).any():
        ctx.violation('forward-returns-NaN/%s' % L, {'T': float(T[np.isnan(f)][0])})
    if np.isnan(g).any():
        ctx.violation('inverse-returns-NaN/%s' % L, {'mV': float(V[np.isnan(g)][0])})
    # total on every array shape a channel read can hand over: empty windows, one value, values of a single sign / piece
    import nptdms.scaling as S
    for name, fn, pts in (('forward', th.celsius_to_mv, T), ('inverse', th.mv_to_celsius, V)):
        for arr in (np.zeros(0), pts[:1].copy(), pts[5000:5003].copy(), np.array([pts[3], pts[-7], pts[10000]])):
            ctx.count('shape_totality_calls')
            try:
                with np.errstate(all='ignore'):
                    out = np.asarray(fn(arr.copy()))
                ok = out.shape == arr.shape and not np.isnan(out).any()
                whole = fn(pts.copy())
                if ok and len(arr) == 3 and arr[0] == pts[5000]:
                    ok = np.array_equal(out, np.asarray(whole)[5000:5003])
                if not ok:
                    ctx.violation('%s-not-total/%s/%s' % (name, 'empty' if len(arr) == 0 else 'short', L), {'input': arr.tolist(), 'output': out.tolist()})
            except Exception as ex:
                ctx.violation('%s-raises/%s/%s' % (name, 'empty-input' if len(arr) == 0 else 'short-input', util.exc_key(ex)), {'type': L, 'input': arr.tolist()})
    for d in (0, 1):
        try:
            out = np.asarray(S.ThermocoupleScaling(CODES[L], d, SG.RAW).scale(np.zeros(0)))
            ctx.count('shape_totality_calls')
            if out.shape != (0,):
                ctx.violation('scaling-empty-input-wrong-shape/%s' % L, {'direction': d, 'shape': list(out.shape)})
        except Exception as ex:
            ctx.violation('scaling-raises/empty-input/%s' % util.exc_key(ex), {'type': L, 'direction': d})


def scaling(case, ctx):
    import nptdms.scaling as S
    from nptdms import TdmsFile
    L, d = case['t'], case['d']
    rng = random.Random('c18s/%s/%d/%d' % (L, d, case['s']))
    table = ref_table(L)
    lo, hi = BANDS[L][0][0], BANDS[L][-1][1]
    T = np.array([lo, hi, (lo + hi) / 2] + [rng.uniform(lo, hi) for _ in range(500)])
    Vmv, bound = ref_eval(table, T)
    ctx.evaluation(len(T))
    ctx.count('scaling_points', len(T))
    ctx.distinct((L, 'scaling', d))
    sc = S.ThermocoupleScaling(CODES[L], d, SG.RAW)
    desc = dict(kind='Thermocouple', tc_type=CODES[L], direction=d, src=SG.RAW)
    inputs = T if d == 1 else Vmv * 1000.0
    props = SG.graph_props([desc])
    segs = M.build_file(random.Random(0), [('g', 'c', 'f64', len(inputs), props)], nseg=1, nchunks=(1,), values_fn=lambda p, t, n: inputs)
    ech = TdmsFile.read(io.BytesIO(M.encode_file(segs)[0]))['g']['c']
    through = ech[:]
    ctx.count('through_channel')
    nwin = 100
    for o1, o2 in ((0, nwin), (nwin, 3 * nwin), (7, 211)):
        w1, w2 = ech.read_data(o1, nwin), ech.read_data(o2, nwin)
        ctx.count('window_pairs')
        if not (np.array_equal(w1, through[o1:o1 + nwin], equal_nan=True) and np.array_equal(w2, through[o2:o2 + nwin], equal_nan=True)):
            ctx.violation('scaling/same-length-windows-at-different-offsets-disagree/%s' % L, {'direction': d, 'offsets': (o1, o2)})
    # a single precision raw channel: declared float64, and as accurate as the (rounded) input allows
    in32 = inputs.astype('f4')
    segs32 = M.build_file(random.Random(0), [('g', 'c', 'f32', len(in32), props)], nseg=1, nchunks=(1,), values_fn=lambda p, t, n: in32)
    got32 = TdmsFile.read(io.BytesIO(M.encode_file(segs32)[0]))['g']['c'][:]
    ref32 = sc.scale(in32.astype('f8'))
    ctx.count('single_precision_channels')
    if got32.dtype != np.dtype('f8') or not np.allclose(got32, ref32, rtol=1e-12, atol=1e-9, equal_nan=True):
        ctx.violation('scaling/single-precision-channel/%s' % L, {'direction': d, 'dtype': str(got32.dtype),
                                                                 'max_abs_diff': float(np.nanmax(np.abs(got32.astype('f8') - ref32)))})
    # inputs of one sign only / of one piece only must be left untouched too (fast paths for the common case)
    th_ = impl(L)
    for arr_ in (T[T >= 0], T[T < 0], np.sort(T)[:5], np.sort(T)[-5:]):
        for nm_, fn_, xin in (('forward', th_.celsius_to_mv, arr_), ('scaling', S.ThermocoupleScaling(CODES[L], 1, SG.RAW).scale, arr_)):
            if len(xin) == 0:
                continue
            xx = np.array(xin, dtype='f8')
            kk = xx.tobytes()
            r1_ = np.array(fn_(xx), dtype='f8')
            ctx.count('purity_calls')
            if xx.tobytes() != kk:
                ctx.violation('%s/modifies-a-single-sign-input/%s' % (nm_, L), {'first': float(xin[0])})
            elif not np.array_equal(r1_, np.array(fn_(xx), dtype='f8'), equal_nan=True):
                ctx.violation('%s/second-call-differs/%s' % (nm_, L), {'first': float(xin[0])})
    x = np.array(inputs, dtype='f8')
    keep = x.tobytes()
    direct = sc.scale(x)
    ctx.count('purity_calls')
    if x.tobytes() != keep:
        ctx.violation('scaling/scale-modifies-its-input/%s' % L, {'direction': d})
    elif not np.array_equal(np.asarray(direct), np.asarray(sc.scale(x)), equal_nan=True):
        ctx.violation('scaling/second-scale-call-differs/%s' % L, {'direction': d})
    # an earlier result must survive a later conversion of the same shape (same thermocouple object)
    keep_direct = np.array(direct, dtype='f8').tobytes()
    sc.scale(x[::-1].copy())
    S.ThermocoupleScaling(CODES[L], d, SG.RAW).scale(x[::-1].copy())
    if np.array(direct, dtype='f8').tobytes() != keep_direct:
        ctx.violation('scaling/earlier-result-overwritten-by-later-call/%s' % L, {'direction': d})
    # chained: a Linear scale (identity or unit change) feeding the thermocouple scale through its input source
    k_ = rng.choice([1.0, 1e3])
    chain = [dict(kind='Linear', slope=k_, intercept=0.0, src=SG.RAW), dict(desc, src=0)]
    segs2 = M.build_file(random.Random(0), [('g', 'c', 'f64', len(inputs), SG.graph_props(chain))], nseg=1, nchunks=(1,), values_fn=lambda p, t, n: inputs / k_)
    chained = TdmsFile.read(io.BytesIO(M.encode_file(segs2)[0]))['g']['c'][:]
    ctx.count('chained_scalings')
    # defaults: a missing Scaling_Direction means voltage -> temperature (0), a missing type means J
    extra = []
    if d == 0:
        pl = [(n_, t_, v_) for n_, t_, v_ in SG.graph_props([desc]) if not n_.endswith('Scaling_Direction')]
        segs3 = M.build_file(random.Random(0), [('g', 'c', 'f64', len(inputs), pl)], nseg=1, nchunks=(1,), values_fn=lambda p, t, n: inputs)
        extra.append(('channel-default-direction', TdmsFile.read(io.BytesIO(M.encode_file(segs3)[0]))['g']['c'][:]))
        ctx.count('default_direction_cases')
    if L == 'J':
        # (library convention, mirrored: a scale without a Thermocouple_Type property is a type J thermocouple)
        pl = [(n_, t_, v_) for n_, t_, v_ in SG.graph_props([desc]) if not n_.endswith('Thermocouple_Type')]
        segs4 = M.build_file(random.Random(0), [('g', 'c', 'f64', len(inputs), pl)], nseg=1, nchunks=(1,), values_fn=lambda p, t, n: inputs)
        extra.append(('channel-default-type', TdmsFile.read(io.BytesIO(M.encode_file(segs4)[0]))['g']['c'][:]))
        ctx.count('default_type_cases')
    for label, got in [('direct', direct), ('channel', through), ('chained-input-source', chained)] + extra:
        if d == 1:
            slack = 1e-9 * np.abs(1000.0 * Vmv) + 1e-9 if label.startswith('chained') else 0.0     # x/k*k is not exact
            ok = np.abs(got - 1000.0 * Vmv) <= 1000.0 * (8 * np.finfo('f8').eps * bound) + 1e-300 + slack
            if not ok.all():
                i = int(np.nonzero(~ok)[0][0])
                ctx.violation('scaling/celsius-to-microvolt/%s/%s' % (L, label), {'T': float(T[i]), 'got_uV': float(got[i]), 'reference_uV': float(1000 * Vmv[i])})
        else:
            blo, bhi = band_for(L, T)
            err = got - T
            ok = (err >= blo - 1e-6) & (err <= bhi + 1e-6)
            if not ok.all():
                i = int(np.nonzero(~ok)[0][0])
                ctx.violation('scaling/microvolt-to-celsius/%s/%s' % (L, label), {'uV': float(inputs[i]), 'got_T': float(got[i]), 'true_T': float(T[i])})
    ctx.sample({'case': case}, limit=1)


def evidence_extra(merged, tier):
    mins, maxs = {}, {}
    for k in merged['cells']:
        if k.startswith('inverse-error-min:'):
            _, L, v = k.split(':')
            mins[L] = min(mins.get(L, 9e9), float(v))
        if k.startswith('inverse-error-max:'):
            _, L, v = k.split(':')
            maxs[L] = max(maxs.get(L, -9e9), float(v))
    return {'observed_inverse_error_range_K': {L: [mins.get(L), maxs.get(L)] for L in TYPES}, 'nist_bands': BANDS}
