"""C01 - reading returns exactly the content the file encodes.
Reference-model monitor: generated logical files -> independent encoder -> TdmsFile.read -> compare
with the model (objects, order, types, lengths, bit-exact values, last-write properties); icontract
contracts on receivers / chunk accounting active during every read."""
import io
import os
import random
import numpy as np

from vlib import model as M, compare as C, contracts, util

ID = 'C01'
LEVEL = 'exploration'
LEVEL_TEXT = "Exploration with an executable oracle: thousands of generated well-formed files (all 17 types x layouts x chunkings, forced coverage matrix) are read by the real TdmsFile.read and compared bit-exactly with the logical model they were encoded from, with receiver/chunk-accounting contracts active. Universal claim over file shapes cannot be enumerated, so this is 'held on K distinct shapes', not proof."
LEVEL_NOTE = 'Trusted: vlib/model.py encoder as the reading of the TDMS layout; NumPy; icontract. Says nothing about shapes the generator cannot produce (e.g. DAQmx is in C11).'
TECHNIQUE = 'reference-model monitor at the API boundary + icontract contracts on receivers and chunk accounting'
RULE = ('random + directed logical TDMS files from vlib.model (1-6 segments, 1-5 channels, 17 types, contiguous/'
        'interleaved, 0-4 chunks, metadata inheritance, padding, both byte orders), encoded by an independent '
        'encoder and read with TdmsFile.read; non-trivial = at least one channel with >=1 value; distinct = '
        'tuple of per-segment signatures (layout, endian, nchunks, has-metadata, new-obj-list, sorted (type, nvals), '
        'header kinds)')
ASSUMPTIONS = ['the model/encoder in vlib/model.py is a correct reading of the NI TDMS layout (cross-checked by '
               'vlib.refparse on LabVIEW-written files and by agreement with the reader on >10^5 files)',
               'property equality is by value (NaN == NaN); channel values are compared as little-endian bytes']
REQUIRED = ['property_dicts_written', 'dtype_checked', 'contract:receiver.append_data', 'contract:segment._calculate_chunks', 'contract:file._read_data',
            'files_by_path', 'files_with_memmap', 'props_compared']

N = {'quick': 16000, 'thorough': 2000000}
DIRECTED_PER_CELL = {'quick': 6, 'thorough': 60}


def gen_cases(tier, seed):
    # directed: every (type, layout, multi) cell
    for t in M.ALL_TYPES:
        for inter in (0, 1):
            if inter and t == 'str':
                continue
            for multi in (0, 1):
                for k in range(DIRECTED_PER_CELL[tier]):
                    yield {'k': 'dir', 't': t, 'inter': inter, 'multi': multi, 's': seed * 1000003 + k}
    for i in range(N[tier]):
        yield {'k': 'rnd', 's': seed * 1000003 + i}
    if True:
        for i in range(32 if tier == 'thorough' else 8):
            yield {'k': 'big', 's': seed * 1000003 + i}
        for i in range(12 if tier == 'thorough' else 3):
            yield {'k': 'huge', 's': seed * 1000003 + i}


def build(case):
    rng = random.Random('c01/%s/%s' % (case['k'], case['s']) + repr(sorted(case.items())))
    if case['k'] == 'dir':
        other = rng.choice(M.FIXED_TYPES)
        segs = M.gen_file(rng, types=[case['t'], case['t'], other], inter=bool(case['inter']), max_segs=3, max_chans=3,
                          chunks=(2, 3, 4) if case['multi'] else (1,), lens=(0, 1, 2, 3) if not case['inter'] else (1, 2, 3),
                          p_zero_chunks=0.0, p_nodata=0.05)
    elif case['k'] == 'huge':
        # raw data sizes at and beyond the block sizes a chunked reader might use (1 MiB, 16 MiB)
        t = rng.choice(['f64', 'i32', 'u8', 'i16', 'c64'])
        size = M.TYPES[t][2]
        n = rng.choice([2 ** 20 // size, 2 ** 20 // size + 1, 2 ** 24 // size + rng.choice([1, 777])])
        inter = rng.random() < 0.4
        other = 'u8' if not inter else t
        chans = [('g', 'big', t, n, []), ('g', 'side', other, n if inter else 3, [])]

        def vf(p, tt, k):
            dt = M.TYPES[tt][1]
            return (np.arange(k, dtype='i8') % 253).astype(dt)
        segs = M.build_file(rng, chans, nseg=rng.choice([1, 2]), nchunks=(1,), inter=inter, endian=rng.choice('<>'), values_fn=vf,
                            continuation='same')
    elif case['k'] == 'big':
        segs = M.gen_file(rng, max_segs=8, max_chans=6, lens=(0, 1, 17, 100, 300), chunks=(1, 2, 5))
    else:
        segs = M.gen_file(rng, max_segs=6, max_chans=5)
    return segs


def shard_setup(ctx):
    contracts.install()
    ctx.tmp = util.TempDir('c01')
    ctx.tmpdir = ctx.tmp.__enter__()


def shard_teardown(ctx):
    contracts.drain(ctx)
    ctx.tmp.__exit__()


def check_against_model(ctx, segs, tf, tag):
    exp = M.Expected(segs)
    bad = []
    # ---- object set and order
    chans = exp.channels()
    by_group = {}
    for p in chans:
        by_group.setdefault(M.split_path(p)[0], []).append(p)
    got_groups = [g.name for g in tf.groups()]
    declared = exp.groups_declared()
    if len(set(got_groups)) != len(got_groups):
        bad.append(('group-duplicated', got_groups))
    if [g for g in got_groups if g in declared] != declared:
        bad.append(('declared-group-order', got_groups, declared))
    if set(got_groups) != set(declared) | set(by_group):
        bad.append(('group-set', got_groups, sorted(set(declared) | set(by_group))))
    for g in tf.groups():
        got = [c.path for c in g.channels()]
        if got != by_group.get(g.name, []):
            bad.append(('channel-order', g.name, got, by_group.get(g.name, [])))
    # ---- properties
    def cmp_props(path, observed):
        want = exp.props.get(path, {})
        ctx.count('props_compared', len(want))
        if list(observed.keys()) != list(want.keys()):
            bad.append(('prop-names', path, list(observed.keys()), list(want.keys())))
            return
        for name, (pt, val) in want.items():
            if not C.prop_matches(pt, val, observed[name]):
                bad.append(('prop-value:' + pt, path, name, repr(val), repr(observed[name])))
    cmp_props('/', tf.properties)
    for g in tf.groups():
        cmp_props(g.path, g.properties)
    # ---- channels
    for g in tf.groups():
        for c in g.channels():
            p = c.path
            if p not in exp.objects:
                continue
            cmp_props(p, c.properties)
            t = exp.types.get(p)
            n = exp.length(p)
            if len(c) != n:
                bad.append(('length', p, len(c), n))
            if t is None:
                if c.data_type is not None:
                    bad.append(('type-invented', p, c.data_type.__name__))
                continue
            if c.data_type is None or c.data_type.__name__ != C.TDS_NAME[t]:
                bad.append(('tdms-type:' + t, p, None if c.data_type is None else c.data_type.__name__))
            data = c[:]
            want = C.expected_image(t, exp.flat(p))
            got = C.image(data)
            if M.TYPES[t][1] is not None:
                # 'with the encoded data type': the NumPy type of that TDMS type, in native byte order as channel.dtype declares it
                ctx.count('dtype_checked')
                if not isinstance(data, np.ndarray) or data.dtype != np.dtype(M.TYPES[t][1]):
                    bad.append(('numpy-dtype:' + t, p, str(getattr(data, 'dtype', type(data).__name__)), M.TYPES[t][1]))
            ctx.count('values_compared', n)
            if not C.img_equal(got, want):
                lay = sorted({('I' if s.interleaved else 'C') for s in segs if any(pp == p and hd for pp, hd, _ in s.active) and s.chunks})
                bad.append(('data:%s:%s' % (t, '+'.join(lay)), p, C.short(got), C.short(want)))
    # the property dicts handed out belong to their objects: writing into one must not show up in another
    objs_ = [tf] + list(tf.groups()) + [c for g in tf.groups() for c in g.channels()]
    if len(objs_) >= 2:
        before_ = [dict(o_.properties) for o_ in objs_]
        try:
            objs_[-1].properties['<written by the caller>'] = 1
            ctx.count('property_dicts_written')
            for o_, b_ in list(zip(objs_, before_))[:-1]:
                if dict(o_.properties) != b_:
                    bad.append(('property-dict-shared-between-objects', getattr(o_, 'path', '/'), sorted(o_.properties)[:4]))
                    break
            del objs_[-1].properties['<written by the caller>']
        except Exception as ex:
            bad.append(('property-dict-write-raises', type(ex).__name__))
    for kind in bad:
        ctx.violation('%s/%s' % (tag, kind[0]), {'diff': kind, 'segs': [s.describe() for s in segs][:4]})


def run_case(case, ctx):
    from nptdms import TdmsFile
    segs = build(case)
    blob, idx, lay = M.encode_file(segs)
    ctx.evaluation()
    exp_nontrivial = False
    for s in segs:
        if s.chunks:
            for p, ix in s.data_objects():
                cell = (ix[0], 'I' if s.interleaved else 'C', 'multi' if len(s.chunks) > 1 else 'single',
                        'zero' if ix[1] == 0 else 'nonempty')
                ctx.cell(cell)
                if ix[1]:
                    exp_nontrivial = True
    if exp_nontrivial:
        ctx.distinct(tuple(s.signature() for s in segs))
    ctx.sample({'case': case, 'segments': [s.describe() for s in segs], 'file_bytes': len(blob)}, limit=2)
    by_path = (case['s'] % 4 == 0)
    try:
        if case['s'] % 4 == 1:
            tf = TdmsFile.read(io.BytesIO(blob), raw_timestamps=True, memmap_dir=ctx.tmpdir)
            ctx.count('files_with_memmap')
        elif by_path:
            path = os.path.join(ctx.tmpdir, 'f.tdms')
            util.write_file(path, blob)
            tf = TdmsFile.read(path, raw_timestamps=True)
            ctx.count('files_by_path')
        else:
            tf = TdmsFile.read(io.BytesIO(blob), raw_timestamps=True)
            ctx.count('files_by_stream')
    except Exception as ex:
        lay_kinds = '+'.join(sorted({('I' if s.interleaved else 'C') for s in segs}))
        ctx.violation('read-raises/%s' % util.exc_key(ex), {'exc': util.exc_detail(ex), 'segs': [s.describe() for s in segs][:4]})
        return
    check_against_model(ctx, segs, tf, 'read')


def finalize(merged, tier):
    reasons = []
    need = 5
    for t in M.ALL_TYPES:
        for lay in 'CI':
            if lay == 'I' and t == 'str':
                continue
            for multi in ('single', 'multi'):
                for z in ('nonempty', 'zero'):
                    if lay == 'I' and z == 'zero':
                        continue   # an interleaved segment of zero-length channels holds no data
                    key = str((t, lay, multi, z))
                    if merged['cells'].get(key, 0) < need:
                        reasons.append('coverage cell %s hit %d < %d times' % (key, merged['cells'].get(key, 0), need))
    return reasons
