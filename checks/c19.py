"""C19 - partial reads touch only the part of the file they need (I/O trace monitor)."""
import io
import random
import numpy as np

from vlib import model as M, compare as C, contracts, util
from vlib.iotrace import TraceIO, TraceRawIO, union, covered

ID = 'C19'
LEVEL = 'exploration'
LEVEL_TEXT = ('I/O trace monitor: TdmsFile.open is given a recording stream; for every window (exhaustive for short channels), slice and '
              'integer index the (position, size) of every read()/readinto() is checked offline against regions computed from the '
              "encoder's byte layout, independently of reader state: the requested channel's own bytes in the chunks overlapping the "
              'request (contiguous), the rows of those chunks (interleaved), and the 4-byte tag of each segment between the first and '
              'last segment touched. A repeated index into the chunk just read must issue no read at all.')
LEVEL_NOTE = 'Trusted: the layout map produced by vlib.model.encode_file. A value-correct but whole-segment read is a violation here.'
TECHNIQUE = 'offline checker over recorded stream events (read/readinto/seek) against layout-derived allowed byte regions'
RULE = ('multi-segment multi-chunk model files with several channels; non-trivial = request on a channel that shares its segments with '
        'other channels and has >=2 chunks; distinct = (per-segment signatures, channel)')
ASSUMPTIONS = ['"constant number of bytes per segment touched" = the 4-byte segment tag the reader verifies before reading a segment',
               'an empty request may touch at most the one chunk containing its offset']
REQUIRED = ['raw_stream_files', 'stepped_slices', 'short_last_files', 'truncated_files', 'daqmx_files', 'requests', 'reads_checked', 'cached_index_checked', 'bytes_allowed', 'requests_partial']
N = {'quick': 800, 'thorough': 200000}


def gen_cases(tier, seed):
    for i in range(N[tier]):
        yield {'s': seed * 1000003 + i}
    for i in range(N[tier] // 4):
        yield {'s': seed * 1000003 + i, 'cut': True}
    for i in range(N[tier] // 4):
        yield {'s': seed * 1000003 + i, 'short_last': True}
    for i in range(N[tier] // 4):
        yield {'s': seed * 1000003 + i, 'daqmx': True}


def build(case):
    rng = random.Random('c19/%d' % case['s'])
    while True:
        segs = M.gen_file(rng, max_segs=6, max_chans=4, lens=(1, 2, 3, 5, 9), chunks=(1, 2, 3, 4), p_props=0.0, extra_objects=False,
                          p_zero_chunks=0.05, p_pad=0.3)
        if sum(len(s.chunks) for s in segs) >= 2:
            return segs, rng


def chunk_table(segs, lay, path, cut=None):
    """[(seg index, value_start, value_end, (region_start, region_len))] per chunk holding values of path.
    cut: the file ends there (inside the last segment, contiguous fixed-size data): a channel keeps the whole values present."""
    out, pos = [], 0
    for si, (s, l) in enumerate(zip(segs, lay.segs)):
        for p, ix in s.data_objects():
            if p != path or ix[1] == 0:
                continue
            for (cstart, clen, per) in l['chunks']:
                region = (cstart, clen) if s.interleaved else per[p]
                nvals = ix[1]
                if cut is not None and region[0] + region[1] > cut:
                    if s.interleaved:
                        return None
                    size = M.TYPES[ix[0]][2]
                    nvals = max(0, cut - region[0]) // size
                    region = (region[0], nvals * size)
                    if nvals == 0:
                        continue
                out.append((si, pos, pos + nvals, region))
                pos += nvals
    return out


def allowed_for(table, lay, a, b, empty_at=None):
    """Allowed (start, len) regions for the value range [a, b)."""
    regs = []
    if a >= b:
        hit = [t for t in table if t[1] <= empty_at < t[2]][:1] if empty_at is not None else []
    else:
        hit = [t for t in table if t[1] < b and a < t[2]]
    if hit:
        s0, s1 = hit[0][0], hit[-1][0]
        for si in range(s0, s1 + 1):
            regs.append((lay.segs[si]['start'], 4))
        # an interleaved segment is fetched in one go from the first to the last needed chunk
        regs += [t[3] for t in hit]
    return regs, hit


def daqmx_case(case, ctx):
    """DAQmx layout: a request may touch the rows of the chunks overlapping it (all raw buffers of those chunks)."""
    from nptdms import TdmsFile
    from vlib import daqmx as D
    rng = random.Random('c19d/%d' % case['s'])
    f = D.gen_daqmx(rng, chunks=(2, 3, 4), max_segs=3)
    blob, _, lay = f.encode()
    cs = f.chunk_size
    stream = TraceIO(blob)
    tf = TdmsFile.open(stream)
    ctx.count('daqmx_files')
    try:
        for ch in f.chans:
            c = tf['G'][ch['name']]
            n = len(c)
            if n == 0 or cs == 0:
                continue
            ctx.evaluation()
            table, pos = [], 0
            for si, (seg, l) in enumerate(zip(f.segs, lay)):
                for k in range(seg['nchunks']):
                    table.append((si, pos, pos + ch['n'], (l['data_start'] + k * cs, cs)))
                    pos += ch['n']
            layx = type('L', (), {'segs': [{'start': l['start']} for l in lay]})()
            if len(table) >= 2:
                ctx.distinct(('daqmx', f.signature(), ch['name']))
            wins = [(o, l_) for o in range(n + 1) for l_ in list(range(n + 2)) + [None]] if n <= 12 else \
                [(rng.randrange(n + 1), rng.choice([None, 0, 1, rng.randrange(n + 1)])) for _ in range(80)]
            for o, l_ in wins:
                b = n if l_ is None else min(n, o + l_)
                regs, hit = allowed_for(table, layx, o, b, empty_at=o)
                mark = stream.mark()
                c.read_data(o, l_, scaled=False)
                judge(ctx, stream, mark, regs, 'window/daqmx', {'chan': ch['name'], 'offset': o, 'length': l_, 'n': n, 'file': f.describe()})
                if hit and len(hit) < len(table):
                    ctx.count('requests_partial')
    except Exception as ex:
        ctx.violation('raises/daqmx/%s' % util.exc_key(ex), {'exc': util.exc_detail(ex), 'file': f.describe()})
    finally:
        tf.close()


def short_last_case(case, ctx):
    """A complete segment (explicit offsets) whose last chunk is proportionally shorter: k < n values of every channel."""
    import struct
    from nptdms import TdmsFile
    rng = random.Random('c19s/%d' % case['s'])
    nch = rng.randint(2, 3)
    n = rng.randint(3, 9)
    types = [rng.choice(['i32', 'f64', 'i16', 'u8']) for _ in range(nch)]
    chans = [('g', 'c%d' % i, types[i], n, []) for i in range(nch)]
    segs = M.build_file(rng, chans, nseg=rng.randint(1, 2), nchunks=(rng.randint(2, 3),), continuation='same')
    blob, _, lay = M.encode_file(segs)
    last = lay.segs[-1]
    k = rng.randint(1, n - 1)
    cstart, clen, per = last['chunks'][-1]
    short = b''.join(blob[per[M.qpath('g', 'c%d' % i)][0]:per[M.qpath('g', 'c%d' % i)][0] + k * M.TYPES[types[i]][2]] for i in range(nch))
    b = bytearray(blob[:cstart] + short)
    e = segs[-1].endian
    nxt = struct.unpack(e + 'Q', bytes(b[last['start'] + 12:last['start'] + 20]))[0]
    b[last['start'] + 12:last['start'] + 20] = struct.pack(e + 'Q', nxt - (clen - len(short)))
    blob = bytes(b)
    stream = TraceIO(blob)
    tf = TdmsFile.open(stream)
    ctx.count('short_last_files')
    desc = {'n': n, 'k': k, 'types': types, 'segments': [s.describe() for s in segs][:2]}
    try:
        for i in range(nch):
            p = M.qpath('g', 'c%d' % i)
            ch = tf['g']['c%d' % i]
            size = M.TYPES[types[i]][2]
            table, pos = [], 0
            for si, l in enumerate(lay.segs):
                for ci, (cs, cl, pr) in enumerate(l['chunks']):
                    if si == len(lay.segs) - 1 and ci == len(l['chunks']) - 1:
                        off = cs + sum(k * M.TYPES[types[j]][2] for j in range(i))
                        table.append((si, pos, pos + k, (off, k * size)))
                        pos += k
                    else:
                        table.append((si, pos, pos + n, pr[p]))
                        pos += n
            total = len(ch)
            if total != pos:
                ctx.count('short_last_count_differs(observation)')
                continue
            ctx.evaluation()
            ctx.distinct(('short-last', n, k, tuple(types), i))
            wins = [(o, l_) for o in range(max(0, total - 2 * n), total + 1) for l_ in (1, 2, k, n, None)]
            for o, l_ in wins:
                bnd = total if l_ is None else min(total, o + l_)
                regs, hit = allowed_for(table, lay, o, bnd, empty_at=o)
                mark = stream.mark()
                ch.read_data(o, l_)
                judge(ctx, stream, mark, regs, 'window/short-final-chunk', {'path': p, 'offset': o, 'length': l_, 'n': total, 'file': desc})
            for idx in (total - 1, -1, total - k, total - k - 1):
                ch._cached_chunk = None
                ch._cached_chunk_bounds = None
                t = [t_ for t_ in table if t_[1] <= idx % total < t_[2]][0]
                mark = stream.mark()
                ch[idx]
                judge(ctx, stream, mark, [(lay.segs[t[0]]['start'], 4), t[3]], 'index/short-final-chunk', {'path': p, 'index': idx, 'n': total, 'file': desc})
    except Exception as ex:
        ctx.violation('raises/short-last/%s' % util.exc_key(ex), {'exc': util.exc_detail(ex), 'file': desc})
    finally:
        tf.close()


def run_case(case, ctx):
    if case.get('daqmx'):
        return daqmx_case(case, ctx)
    if case.get('short_last'):
        return short_last_case(case, ctx)
    from nptdms import TdmsFile
    segs, rng = build(case)
    blob, _, lay = M.encode_file(segs)
    cut = None
    if case.get('cut'):
        last = lay.segs[-1]
        if segs[-1].interleaved or any(ix[0] == 'str' for _, ix in segs[-1].data_objects()) or last['end'] - last['data_start'] < 2:
            return
        cut = rng.randrange(last['data_start'] + 1, last['end'])
        blob = blob[:cut]
        ctx.count('truncated_files')
    ctx.evaluation()
    exp = M.Expected(segs)
    raw_stream = case['s'] % 3 == 0
    stream = TraceRawIO(blob) if raw_stream else TraceIO(blob)       # a third of the files come as an unbuffered raw stream
    ctx.count('raw_stream_files' if raw_stream else 'bytesio_files')
    tf = TdmsFile.open(stream, raw_timestamps=True)
    desc = [s.describe() for s in segs][:5]
    ctx.sample({'case': case, 'segments': desc[:2], 'layout': [(l['start'], l['data_start'], l['end']) for l in lay.segs]}, limit=2)
    try:
        for p in exp.channels():
            g, c = M.split_path(p)
            ch = tf[g][c]
            n = len(ch)
            table = chunk_table(segs, lay, p, cut)
            if table is None:
                continue
            if cut is not None and sum(t[2] - t[1] for t in table) != n:
                continue        # the reader counts this channel differently in the truncated chunk (C06 judges that); regions would not line up
            ctx.evaluation()
            if n == 0 or not table:
                continue
            shared = any(len(s.data_objects()) > 1 for s in segs if any(pp == p for pp, _ in s.data_objects()))
            if shared and len(table) >= 2:
                ctx.distinct((tuple(s.signature() for s in segs), p))
            inter = any(s.interleaved for s in segs if any(pp == p for pp, _ in s.data_objects()) and s.chunks)
            layk = 'interleaved' if inter else 'contiguous'
            if n <= 16:
                wins = [(o, l) for o in range(n + 1) for l in list(range(n + 2)) + [None]]
            else:
                wins = [(rng.randrange(n + 1), rng.choice([None, 0, 1, 2, rng.randrange(n + 1)])) for _ in range(150)]
            for o, l in wins:
                b = n if l is None else min(n, o + l)
                regs, hit = allowed_for(table, lay, o, b, empty_at=o)
                mark = stream.mark()
                ch.read_data(o, l)
                judge(ctx, stream, mark, regs, 'window/' + layk, {'path': p, 'offset': o, 'length': l, 'n': n, 'segments': desc})
                if hit and len(hit) < len(table):
                    ctx.count('requests_partial')
            for _ in range(12):
                a, b2 = sorted((rng.randrange(-n, n + 1), rng.randrange(-n, n + 1)))
                lo, hi, _ = slice(a, b2).indices(n)
                regs, hit = allowed_for(table, lay, lo, hi, empty_at=None)
                mark = stream.mark()
                ch[a:b2]
                judge(ctx, stream, mark, regs, 'slice/' + layk, {'path': p, 'slice': (a, b2), 'n': n, 'segments': desc})
            # stepped and reversed slices
            for _ in range(12):
                a, b2 = rng.choice([None] + list(range(-n, n + 1))), rng.choice([None] + list(range(-n, n + 1)))
                st = rng.choice([2, 3, -1, -1, -2, -3])
                i0, i1, _ = slice(a, b2, st).indices(n)
                # the request is the index range the slice spans (from start to stop), not only the selected elements
                lo, hi = (i0, i1) if st > 0 else (i1 + 1, i0 + 1)
                if lo >= hi:
                    lo, hi = 0, 0
                regs, hit = allowed_for(table, lay, lo, hi, empty_at=None)
                mark = stream.mark()
                ch[a:b2:st]
                ctx.count('stepped_slices')
                judge(ctx, stream, mark, regs, 'stepped-slice/%s/%s' % ('reversed' if st < 0 else 'forward', layk),
                      {'path': p, 'slice': (a, b2, st), 'n': n, 'segments': desc})
            # integer index, then again into the chunk just read
            for _ in range(10):
                i = rng.randrange(n)
                t = [t for t in table if t[1] <= i < t[2]][0]
                # the index path fetches exactly the one chunk holding i
                ch._cached_chunk = None
                ch._cached_chunk_bounds = None
                mark = stream.mark()
                ch[i]
                judge(ctx, stream, mark, [(lay.segs[t[0]]['start'], 4), t[3]], 'index/' + layk, {'path': p, 'index': i, 'n': n, 'segments': desc})
                # other requests on the same channel in between do not evict the chunk an index has just fetched
                mark0 = stream.mark()
                ch[i]
                ch.read_data(rng.randrange(n), 1)
                ch[rng.randrange(n):rng.randrange(n) + 1]
                mark1 = stream.mark()
                ch[i]
                ctx.count('cached_index_checked')
                if stream.reads_since(mark1):
                    ctx.violation('index-into-cached-chunk-reads-file/after-window-reads', {'path': p, 'index': i, 'reads': stream.reads_since(mark1)[:6], 'segments': desc})
                for j in list(range(t[1], t[2])) + [k - n for k in range(t[1], t[2])]:
                    mark = stream.mark()
                    ch[j]
                    ctx.count('cached_index_checked')
                    rs = stream.reads_since(mark)
                    if rs:
                        ctx.violation('index-into-cached-chunk-reads-file', {'path': p, 'first_index': i, 'second_index': j, 'reads': rs[:6], 'segments': desc})
                        break
    except Exception as ex:
        ctx.violation('raises/%s' % util.exc_key(ex), {'exc': util.exc_detail(ex), 'segments': desc})
    finally:
        tf.close()


def judge(ctx, stream, mark, regs, what, info):
    ctx.count('requests')
    reads = stream.reads_since(mark)
    U = union(regs)
    allowed_total = sum(b - a for a, b in U)
    ctx.count('bytes_allowed', allowed_total)
    total = 0
    for r in reads:
        ctx.count('reads_checked')
        total += r[1]
        if not covered(r, U):
            ctx.violation('read-outside-needed-region/' + what, dict(info, read=r, allowed=U[:12], all_reads=reads[:12]))
            return
    ctx.count('bytes_read', total)
    if total > allowed_total:
        ctx.violation('more-bytes-than-needed/' + what, dict(info, read_total=total, allowed_total=allowed_total, reads=reads[:12]))
