"""C06 - a file cut short by a crash reads as a prefix of the complete file (fault enumeration)."""
import io
import random
import numpy as np

from vlib import model as M, compare as C, contracts, util
from checks import c11 as DQ
from vlib.reach import Reach, unreached, summary

ID = 'C06'
LEVEL = 'fault_enumeration'
LEVEL_TEXT = ('Fault enumeration: for every generated file, EVERY cut offset from 4 to the file length is applied and the truncated copy '
              'is read eagerly and lazily (a third of the files also with memmap_dir, a quarter also by path with the intact index file beside the cut data file), with an explicit next-segment offset and with the 0xFFFF... marker in the last lead-in. The '
              'oracle derives from the model and the encoder layout: no exception, every channel a prefix of its complete values, at '
              'least all values of segments wholly before the cut, len(channel) == values returned, lazy == eager, and '
              'file_status.incomplete_final_segment exactly as the layout dictates. DAQmx files are cut the same way (complete rows).')
LEVEL_NOTE = ('Crash points are enumerated exhaustively per file; file shapes are sampled. A lead-in carrying the marker reports incomplete '
              'even at full length (the file itself declares it unfinished).')
TECHNIQUE = 'exhaustive truncation-point fault injection with a model/layout-derived prefix oracle'
RULE = ('files of ~150-1500 bytes from vlib.model.gen_file (contiguous, interleaved, mixed types, strings, metadata-less segments) and '
        'vlib.daqmx; every cut offset; non-trivial = cut strictly inside the raw data of a segment with >=2 data channels; '
        'distinct = (file signature, variant, cut offset)')
ASSUMPTIONS = ['marker variant: strings only in single-chunk last segments (as the statement restricts)',
               'expected status: explicit offsets -> incomplete iff data_start <= cut < end of a segment; marker -> iff the last '
               "segment's metadata is complete"]
REQUIRED = ['reads_through_wrapped_stream', 'reads_with_intact_index', 'memmap_reads', 'tall_files', 'long_files', 'cuts', 'cuts_in_raw_data', 'cuts_in_metadata', 'cuts_in_lead_in', 'status_checked', 'lazy_eager_compared', 'prefix_checked',
            'variant:explicit', 'variant:marker', 'cuts_checked']
N = {'quick': 130, 'thorough': 4000}
NDAQ = {'quick': 60, 'thorough': 1500}


def gen_cases(tier, seed):
    for i in range(N[tier]):
        yield {'fam': 'model', 's': seed * 1000003 + i, 'marker': i % 3 == 2}
    for i in range(NDAQ[tier]):
        yield {'fam': 'daqmx', 's': seed * 1000003 + i, 'marker': False}
    for i in range(N[tier] // 10):
        yield {'fam': 'long', 's': seed * 1000003 + i, 'marker': False}
    for i in range(N[tier] // 5):
        yield {'fam': 'tall', 's': seed * 1000003 + i, 'marker': i % 3 == 2}


def shard_setup(ctx):
    contracts.install()
    import nptdms.tdms_segment as ts
    import nptdms.reader as rd
    ctx.reach = Reach({'_compute_final_chunk_lengths': ts.TdmsSegment._compute_final_chunk_lengths,
                       '_calculate_chunks': getattr(ts.TdmsSegment._calculate_chunks, '__wrapped__', ts.TdmsSegment._calculate_chunks),
                       }, ignore_raise=True)
    ctx.reach.start()
    ctx.tmp = util.TempDir('c06')
    ctx.tmpdir = ctx.tmp.__enter__()
    import os
    ctx.dpath = os.path.join(ctx.tmpdir, 'cut%d.tdms' % os.getpid())
    # a file of another size whose descriptor a wrapping stream reports (gzip.open, a member of an archive, a window of a container)
    ctx.container = open(os.path.join(ctx.tmpdir, 'container%d.bin' % os.getpid()), 'w+b')
    ctx.container.write(b'\x1f\x8b' + b'\0' * 5)
    ctx.container.flush()


def shard_teardown(ctx):
    contracts.drain(ctx)
    ctx.tmp.__exit__()
    ctx.reach.stop()
    ctx.reach.report(ctx)


class WrappedStream(io.BytesIO):
    """A seekable stream over the TDMS bytes that forwards fileno() of the container file it was unpacked from."""
    container_fd = None

    def fileno(self):
        return WrappedStream.container_fd


def build(case):
    rng = random.Random('c06/%d/%s/%s' % (case['s'], case['marker'], case['fam']))
    if case['fam'] == 'tall':
        # many rows per chunk: the proportional arithmetic of the final chunk is exercised at every row boundary
        nch = rng.randint(1, 3)
        n = rng.randint(20, 60)
        inter = rng.random() < 0.6
        types = [rng.choice(['i8', 'i16', 'i32', 'f64', 'u16']) for _ in range(nch)]
        chans = [('g', 'c%d' % i, types[i], n if inter else rng.choice([n, rng.randint(20, 60)]), []) for i in range(nch)]
        segs = M.build_file(rng, chans, nseg=rng.randint(1, 2), nchunks=(rng.randint(1, 2),), inter=inter, endian=rng.choice('<>'),
                            continuation=rng.choice(['same', 'none']))
        blob, idx_, lay = M.encode_file(segs, marker_last=case['marker'])
        return segs, blob, lay, rng, idx_
    while True:
        segs = M.gen_file(rng, max_segs=4, max_chans=4, lens=(0, 1, 2, 3, 5), chunks=(1, 2, 3), p_props=0.15, p_pad=0.1,
                          ts_safe=True)
        if case['marker']:
            last = segs[-1]
            if any(ix[0] == 'str' for _, ix in last.data_objects()) and len(last.chunks) > 1:
                continue
        blob, idx_, lay = M.encode_file(segs, marker_last=case['marker'])
        if 100 <= len(blob) <= 1600 and any(s.chunks for s in segs):
            return segs, blob, lay, rng, idx_


def observe(tf):
    out = {}
    for g in tf.groups():
        for ch in g.channels():
            d = ch[:]
            out[ch.path] = (len(ch), C.image(d))
    return out


def run_case(case, ctx):
    from nptdms import TdmsFile
    if case['fam'] == 'daqmx':
        f, rng = DQ.build({'s': case['s']})
        blob, _, lay = f.encode()
        ctx.evaluation()
        tf = TdmsFile.read(io.BytesIO(blob))
        eager_raw = {}
        for ch in f.chans:
            c = tf['G'][ch['name']]
            for s in ch['scalers']:
                eager_raw[(ch['name'], s['id'])] = c.raw_scaler_data[s['id']] if ch['raw'] else c.raw_data
        DQ.check_cuts(ctx, f, blob, lay, rng, eager_raw, every=len(blob) < 2500, nsample=300, prefix='daqmx-trunc')
        ctx.distinct(('daqmx',) + f.signature())
        return
    if case['fam'] == 'long':
        from checks.c05 import long_file
        rng = random.Random('c06l/%d' % case['s'])
        segs = long_file(rng)
        blob, index_bytes, lay = M.encode_file(segs)
        ctx.count('long_files')
    else:
        segs, blob, lay, rng, index_bytes = build(case)
    variant = 'marker' if case['marker'] else 'explicit'
    ctx.count('variant:' + variant)
    exp = M.Expected(segs)
    full = {}
    for p in exp.channels():
        t = exp.types.get(p)
        full[p] = None if t is None else C.expected_image(t, exp.flat(p))
    sig = tuple(s.signature() for s in segs)
    desc = [s.describe() for s in segs]
    ctx.sample({'case': case, 'file_bytes': len(blob), 'segments': desc[:2],
                'layout(start,data_start,end)': [(l['start'], l['data_start'], l['end']) for l in lay.segs]}, limit=2)
    last = lay.segs[-1]
    first_cut = 4 if case['fam'] != 'long' else lay.segs[-2]['start']      # long files: every offset of the last two segments
    if case['fam'] == 'tall':
        first_cut = lay.segs[-1]['data_start'] - 2
        ctx.count('tall_files')
    for cut in range(first_cut, len(blob) + 1):
        ctx.count('cuts')
        ctx.evaluation()
        seg = next((l for l in lay.segs if l['start'] <= cut < l['end'] or (l is last and cut == l['end'])), None)
        si = lay.segs.index(seg) if seg in lay.segs else None
        if cut == len(blob):
            region = 'complete'
        elif cut < seg['start'] + 28:
            region = 'lead-in'
            ctx.count('cuts_in_lead_in')
        elif cut < seg['data_start']:
            region = 'metadata'
            ctx.count('cuts_in_metadata')
        else:
            region = 'raw-data'
            ctx.count('cuts_in_raw_data')
            if len(segs[si].data_objects()) >= 2 and cut > seg['data_start']:
                ctx.distinct((sig, variant, cut))
        # ---- expected status
        if case['marker'] and cut >= last['start']:
            want_incomplete = cut >= last['data_start']
        else:
            want_incomplete = any(l['data_start'] <= cut < l['end'] for l in lay.segs)
        # ---- lower bound: values of the segments wholly before the cut
        lower = {}
        for l, cnt in zip(lay.segs, exp.seg_counts):
            if l['end'] <= cut:
                for p, k in cnt.items():
                    lower[p] = lower.get(p, 0) + k
        info = {'cut': cut, 'region': region, 'variant': variant, 'segment': si, 'file_bytes': len(blob),
                'layout': [(l['start'], l['data_start'], l['end']) for l in lay.segs], 'segments': desc[:5]}
        shape = segshape(segs[si]) if si is not None else 'none'
        obs = {}
        modes = ('eager', 'lazy', 'eager-memmap', 'lazy-memmap') if case['s'] % 3 == 0 else ('eager', 'lazy')
        if case['s'] % 4 == 1 and case['fam'] != 'long':
            # the data file was cut by the crash, its index file (written segment by segment before the data) is intact
            modes = ('eager', 'lazy', 'eager-path+index', 'lazy-path+index')
            util.write_file(ctx.dpath, blob[:cut])
            util.write_file(ctx.dpath + '_index', index_bytes)
        if case['s'] % 4 == 2:
            modes = ('eager', 'lazy', 'eager-wrapped-stream', 'lazy-wrapped-stream')
            WrappedStream.container_fd = ctx.container.fileno()
        for mode in modes:
            try:
                if mode == 'eager-wrapped-stream':
                    tf = TdmsFile.read(WrappedStream(blob[:cut]), raw_timestamps=True)
                    obs[mode] = observe(tf)
                    status = tf.file_status.incomplete_final_segment
                    ctx.count('reads_through_wrapped_stream')
                elif mode == 'lazy-wrapped-stream':
                    with TdmsFile.open(WrappedStream(blob[:cut]), raw_timestamps=True) as tf:
                        obs[mode] = observe(tf)
                        status = tf.file_status.incomplete_final_segment
                elif mode == 'eager-path+index':
                    tf = TdmsFile.read(ctx.dpath, raw_timestamps=True)
                    obs[mode] = observe(tf)
                    status = tf.file_status.incomplete_final_segment
                    ctx.count('reads_with_intact_index')
                elif mode == 'lazy-path+index':
                    with TdmsFile.open(ctx.dpath, raw_timestamps=True) as tf:
                        obs[mode] = observe(tf)
                        status = tf.file_status.incomplete_final_segment
                elif mode == 'eager-memmap':
                    tf = TdmsFile.read(io.BytesIO(blob[:cut]), raw_timestamps=True, memmap_dir=ctx.tmpdir)
                    obs[mode] = observe(tf)
                    status = tf.file_status.incomplete_final_segment
                    ctx.count('memmap_reads')
                    del tf
                elif mode == 'lazy-memmap':
                    with TdmsFile.open(io.BytesIO(blob[:cut]), raw_timestamps=True, memmap_dir=ctx.tmpdir) as tf:
                        obs[mode] = observe(tf)
                        status = tf.file_status.incomplete_final_segment
                elif mode == 'eager':
                    tf = TdmsFile.read(io.BytesIO(blob[:cut]), raw_timestamps=True)
                    obs[mode] = observe(tf)
                    status = tf.file_status.incomplete_final_segment
                else:
                    with TdmsFile.open(io.BytesIO(blob[:cut]), raw_timestamps=True) as tf:
                        obs[mode] = observe(tf)
                        status = tf.file_status.incomplete_final_segment
            except contracts.ContractBroken as ex:
                ctx.violation('%s/contract/%s/%s/%s' % (mode, util.exc_key(ex), region, shape), dict(info, exc=util.exc_detail(ex)))
                continue
            except Exception as ex:
                ctx.violation('%s/raises/%s/%s/%s' % (mode, util.exc_key(ex), region, shape), dict(info, exc=util.exc_detail(ex)))
                continue
            ctx.count('status_checked')
            if bool(status) != bool(want_incomplete):
                ctx.violation('%s/file_status/%s/%s' % (mode, region, variant), dict(info, reported=bool(status), expected=bool(want_incomplete)))
            for p, (n, im) in obs[mode].items():
                ctx.count('prefix_checked')
                if C.image_len(im) != n:
                    ctx.violation('%s/len-differs-from-values-returned' % mode, dict(info, path=p, len=n, returned=C.image_len(im)))
                if p not in full:
                    ctx.violation('%s/channel-invented' % mode, dict(info, path=p))
                    continue
                if full[p] is None:
                    if n:
                        ctx.violation('%s/values-invented' % mode, dict(info, path=p, n=n))
                    continue
                k = C.image_len(im)
                if not C.img_equal(im, C.image_slice(full[p], slice(0, k))) and k > 0:
                    ctx.violation('%s/not-a-prefix/%s/%s' % (mode, region, shape), dict(info, path=p, got=C.short(im), want=C.short(full[p])))
                elif k > C.image_len(full[p]):
                    ctx.violation('%s/more-values-than-complete-file' % mode, dict(info, path=p))
            for p, k in lower.items():
                got = obs[mode].get(p, (0, None))[0]
                if got < k:
                    ctx.violation('%s/lost-values-of-complete-segments/%s/%s' % (mode, region, shape), dict(info, path=p, got=got, at_least=k))
        for mode in modes[2:]:
            if mode in obs and 'eager' in obs and obs[mode] != obs['eager']:
                diff = [p for p in set(obs['eager']) | set(obs[mode]) if obs['eager'].get(p) != obs[mode].get(p)]
                ctx.violation('%s-differs-from-eager/%s/%s' % (mode, region, shape), dict(info, paths=diff[:4]))
        if 'eager' in obs and 'lazy' in obs:
            ctx.count('lazy_eager_compared')
            if obs['eager'] != obs['lazy']:
                diff = [p for p in set(obs['eager']) | set(obs['lazy']) if obs['eager'].get(p) != obs['lazy'].get(p)]
                ctx.violation('lazy-differs-from-eager/%s/%s' % (region, shape), dict(info, paths=diff[:4]))


def segshape(s):
    types = {ix[0] for _, ix in s.data_objects()}
    return '%s/%s/%s' % ('interleaved' if s.interleaved else 'contiguous', 'with-strings' if 'str' in types else 'fixed-size',
                         'multi-chunk' if len(s.chunks) > 1 else 'single-chunk')


def finalize(merged, tier):
    reasons = []
    for lab, lines in unreached(merged['cells']).items():
        if lines:
            reasons.append('reach: %s lines never executed: %s' % (lab, lines))
    return reasons


def evidence_extra(merged, tier):
    return {'reach': summary(merged['cells']), 'exhaustive_note': 'every cut offset of every generated file is enumerated; file shapes are sampled'}
