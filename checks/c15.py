"""C15 - byte order of a segment does not change its meaning."""
import io
import random
import numpy as np

from vlib import model as M, compare as C, contracts, util
from vlib import daqmx as D

ID = 'C15'
LEVEL = 'exploration'
LEVEL_TEXT = ('Differential monitor over encodings: every generated logical file (all 17 types, contiguous and interleaved, strings, '
              'timestamps, properties of every type; DAQmx files with format-changing and digital-line scalers) is encoded by the '
              'independent encoder all-little-endian, all-big-endian and with a byte order drawn per segment; the three encodings are read '
              'with the real reader (eager and lazy, raw and converted timestamps) and must yield identical snapshots - objects, order, '
              'property values, TDMS types, lengths and channel bytes after normalisation. Evidence counts big-endian cells per (type, layout).')
LEVEL_NOTE = 'Digital-line scalers with multi-byte types are only encoded little-endian (the addressed bit is otherwise ambiguous).'
TECHNIQUE = 'differential monitor: same logical content under per-segment byte-order re-encoding by an independent encoder'
RULE = ('logical files from vlib.model.gen_file and vlib.daqmx.gen_daqmx; non-trivial = file with >=1 big-endian segment holding data; '
        'distinct = per-segment signatures with the byte-order vector')
ASSUMPTIONS = ['the toc mask itself is always little-endian (NI format description)']
REQUIRED = ['block_size_files', 'pairs_compared', 'big_endian_segments_with_data', 'mixed_order_files', 'daqmx_pairs', 'lazy_compared']
N = {'quick': 4000, 'thorough': 500000}


def gen_cases(tier, seed):
    for i in range(N[tier]):
        yield {'fam': 'daqmx' if i % 5 == 4 else 'model', 's': seed * 1000003 + i}
    for i in range(max(10, N[tier] // 100)):
        yield {'fam': 'blocks', 's': seed * 1000003 + i}


def shard_setup(ctx):
    contracts.install()


def shard_teardown(ctx):
    contracts.drain(ctx)


def snap_all(blob, daq=None):
    from nptdms import TdmsFile
    out = {}
    for mode in ('eager', 'lazy', 'eager-raw_ts', 'lazy-raw_ts'):
        try:
            if mode.startswith('lazy'):
                tf = TdmsFile.open(io.BytesIO(blob), raw_timestamps=mode.endswith('raw_ts'))
            else:
                tf = TdmsFile.read(io.BytesIO(blob), raw_timestamps=(mode == 'eager-raw_ts'))
            try:
                out[mode] = C.snapshot(tf, with_data=True, scaled=(daq is None), with_chunks=mode.startswith('lazy'))
            finally:
                tf.close()
        except Exception as ex:
            out[mode] = ('raises', util.exc_key(ex))
    return out


def run_case(case, ctx):
    rng = random.Random('c15/%s/%d' % (case['fam'], case['s']))
    ctx.evaluation()
    if case['fam'] in ('model', 'blocks'):
        if case['fam'] == 'blocks':
            # chunk lengths at and around powers of two (block-wise byte-order conversion): 32768, 65535..65537, 131072 values
            nv = [32768, 65535, 65536, 65537, 131072, 65536, 2 * 65536 + 1][case['s'] % 7]
            t1, t2 = rng.choice(['f64', 'i32', 'i16', 'u64']), rng.choice(['f32', 'i64', 'u16'])
            inter_ = rng.random() < 0.3

            def vfb(p, t, k):
                return ((np.arange(k, dtype='i8') * 2654435761) % 65521).astype(M.TYPES[t][1])
            segs = M.build_file(rng, [('g', 'a', t1, nv, []), ('g', 'b', t2, nv if inter_ else rng.choice([3, nv]), [])], nseg=1,
                                nchunks=(rng.choice([1, 1, 2]),), values_fn=vfb, inter=inter_)
            ctx.count('block_size_files')
        else:
            segs = M.gen_file(rng, max_segs=6, max_chans=5)
        n = len(segs)
        variants = {'little': ['<'] * n, 'big': ['>'] * n, 'mixed': [rng.choice('<>') for _ in range(n)]}
        encs = {k: M.encode_file(segs, endian=v)[0] for k, v in variants.items()}
        desc = [s.describe() for s in segs][:4]
        for vname, v in variants.items():
            for s, e in zip(segs, v):
                if e == '>' and s.chunks:
                    ctx.count('big_endian_segments_with_data')
                    for p, ix in s.data_objects():
                        ctx.cell('BE:%s:%s' % (ix[0], 'I' if s.interleaved else 'C'))
        if len(set(variants['mixed'])) == 2:
            ctx.count('mixed_order_files')
        if any(s.chunks for s in segs):
            ctx.distinct((tuple(s.signature()[2:] for s in segs), tuple(variants['mixed'])))
        daq = None
    else:
        f = D.gen_daqmx(rng, max_segs=3)
        n = len(f.segs)
        multibyte_digital = False     # digital lines are defined on the integer value of the field, so byte order is well defined
        variants = {'little': ['<'] * n}
        if not multibyte_digital:
            variants['big'] = ['>'] * n
            variants['mixed'] = [rng.choice('<>') for _ in range(n)]
            ctx.count('big_endian_segments_with_data', sum(1 for s in f.segs if s['nchunks']))
            if len(set(variants['mixed'])) == 2:
                ctx.count('mixed_order_files')
        encs = {k: f.encode(endians=v)[0] for k, v in variants.items()}
        desc = f.describe()
        ctx.count('daqmx_pairs', len(variants) - 1)
        ctx.distinct(('daqmx', f.signature(), tuple(variants.get('mixed', ()))))
        daq = f
    ctx.sample({'case': case, 'byte_orders': variants, 'file': desc}, limit=2)
    ref = snap_all(encs['little'], daq)
    for vname in variants:
        if vname == 'little':
            continue
        got = snap_all(encs[vname], daq)
        for mode in ref:
            ctx.count('pairs_compared')
            if mode.startswith('lazy'):
                ctx.count('lazy_compared')
            a, b = ref[mode], got[mode]
            if isinstance(a, tuple) or isinstance(b, tuple):
                if a != b:
                    ctx.violation('byte-order-changes-outcome/%s/%s' % (case['fam'], mode),
                                  {'little': a if isinstance(a, tuple) else 'ok', vname: b if isinstance(b, tuple) else 'ok', 'orders': variants[vname], 'file': desc})
                elif isinstance(a, tuple):
                    ctx.violation('well-formed-file-raises/%s/%s' % (case['fam'], a[1]), {'file': desc})
                continue
            diffs = C.snapshot_diff(a, b)
            if diffs:
                d0 = diffs[0]
                tname = ''
                if d0[0].startswith('channel.'):
                    tname = '/' + str(a['channels'][d0[1]]['type'])
                ctx.violation('byte-order-changes-content/%s/%s%s' % (case['fam'], d0[0], tname), {'variant': vname, 'mode': mode, 'orders': variants[vname], 'diffs': diffs[:3], 'file': desc})


def finalize(merged, tier):
    reasons = []
    for t in M.ALL_TYPES:
        for lay in 'CI':
            if lay == 'I' and t == 'str':
                continue
            if merged['cells'].get('BE:%s:%s' % (t, lay), 0) == 0:
                reasons.append('no big-endian %s segment with type %s compared' % ('interleaved' if lay == 'I' else 'contiguous', t))
    return reasons
