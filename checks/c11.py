"""C11 - DAQmx raw data is decoded at the declared buffer, stride, offset and type."""
import io
import random
import struct
import numpy as np

from vlib import compare as C, contracts, util
from vlib import daqmx as D
from vlib.model import enc_str
from vlib.reach import Reach, unreached, summary

ID = 'C11'
LEVEL = 'exploration'
LEVEL_TEXT = ('Exploration with a byte-level oracle: generated DAQmx files (1-5 channels, 1-3 scalers each, 1-3 raw buffers '
              'with padding, per-buffer lengths, 1-4 chunks, 1-3 segments incl. metadata-less/same-as-previous continuation, '
              'both byte orders, format-changing and digital-line scalers) are decoded by the real reader and every scaler '
              'value is compared with the value laid down at (chunk, buffer, row*width, byte offset/bit) by an independent '
              'encoder; lazy windows (exhaustive for short channels), chunk streams and every truncation point are compared too.')
LEVEL_NOTE = ('Trusted: vlib/daqmx.py layout (NI DAQmx raw data description). A digital line is bit (offset % 8) of the integer read at byte '
              'offset // 8 with the declared sample type and the segment byte order (the convention of the code, taken as the definition).')
TECHNIQUE = 'reference-model monitor (independent DAQmx encoder + byte-level oracle) with truncation fault enumeration'
RULE = ('random DAQmx files from vlib.daqmx.gen_daqmx; non-trivial = >=2 scalers in the file and >=1 value; distinct = '
        '(digital, widths, buffer lengths, per-channel (raw, scaler types/buffers/offsets), per-segment (endian, nchunks, metadata kind))')
ASSUMPTIONS = ['an acquisition buffer no scaler refers to has zero rows', 'scaled chunk streams are compared with slices of the eager scaled result']
REQUIRED = ['bare_scaler_outputs', 'scalers_decoded_short_reads', 'chunk_streams_collected_first', 'chunk_streams_read_in_loop', 'scalers_decoded_memmap', 'files_with_channel_switched_off', 'scalers_decoded', 'windows_compared', 'chunk_streams_compared', 'cuts_checked', 'contract:receiver.append_scaler_data']
N = {'quick': 1500, 'thorough': 50000}


def gen_cases(tier, seed):
    for i in range(N[tier]):
        yield {'s': seed * 1000003 + i}
    for i in range(max(6, N[tier] // 500)):
        yield {'s': seed * 1000003 + i, 'big': True}


def shard_setup(ctx):
    contracts.install()
    ctx.tmp = util.TempDir('c11')
    ctx.tmpdir = ctx.tmp.__enter__()
    ctx.reach = None
    if True:
        import nptdms.daqmx as dq
        ctx.reach = Reach({'get_daqmx_final_chunk_lengths': dq.get_daqmx_final_chunk_lengths,
                           'get_buffer_dimensions': dq.get_buffer_dimensions,
                           'DaqmxDataReader._read_data_chunk': dq.DaqmxDataReader._read_data_chunk,
                           'DigitalLineScaler.postprocess_data': dq.DigitalLineScaler.postprocess_data}, ignore_raise=True)
        ctx.reach.start()


def shard_teardown(ctx):
    contracts.drain(ctx)
    ctx.tmp.__exit__()
    if ctx.reach:
        ctx.reach.stop()
        ctx.reach.report(ctx)


def build(case):
    rng = random.Random('c11/%d' % case['s'])
    if case.get('big'):
        # raw buffers of more than 32 KiB per chunk (thousands of rows): sizes and offsets beyond 16-bit ranges
        f = D.gen_daqmx(rng, allow_drop=False, max_segs=2, max_chans=2, max_bufs=2, chunks=(1, 2), lens=(9000, 20000), relayout=False)
    else:
        f = D.gen_daqmx(rng, allow_drop=True, max_segs=4)
    # make some channels scalable: NI_Number_Of_Scales = ns+1, last scale Linear reading scaler j
    for ch in f.chans:
        ids = sorted(s['id'] for s in ch['scalers'])
        pick = rng.random()
        if ch['raw'] and ids == list(range(len(ids))) and 0.7 <= pick < 0.85:
            # the bare DAQmx scaler as the channel's output: NI_Number_Of_Scales = number of scalers, no scale definitions;
            # the channel's data is the last scaler's, in that scaler's type
            ch['scaled_from'] = len(ids) - 1
            ch['bare_scaler_output'] = True
            f.props[f.path(ch)] = [('NI_Number_Of_Scales', 7, lambda e, k=len(ids): struct.pack(e + 'I', k))]
        elif ch['raw'] and ids == list(range(len(ids))) and pick < 0.7:
            k = len(ids)
            j = rng.randrange(k)
            ch['scaled_from'] = j
            f.props[f.path(ch)] = [
                ('NI_Number_Of_Scales', 7, lambda e, k=k: struct.pack(e + 'I', k + 1)),
                ('NI_Scale[%d]_Scale_Type' % k, 0x20, lambda e: enc_str(e, 'Linear')),
                ('NI_Scale[%d]_Linear_Slope' % k, 10, lambda e: struct.pack(e + 'd', 2.0)),
                ('NI_Scale[%d]_Linear_Y_Intercept' % k, 10, lambda e: struct.pack(e + 'd', 1.0)),
                ('NI_Scale[%d]_Linear_Input_Source' % k, 7, lambda e, j=j: struct.pack(e + 'I', j)),
            ]
    return f, rng


def eq(a, b):
    return C.img_equal(C.image(a), C.image(b))


def run_case(case, ctx):
    from nptdms import TdmsFile
    f, rng = build(case)
    blob, idx, lay = f.encode()
    ctx.evaluation()
    nscal = sum(len(c['scalers']) for c in f.chans)
    if any(s['meta'] == 'drop' for s in f.segs):
        ctx.count('files_with_channel_switched_off')
    if nscal >= 2 and any(s['nchunks'] for s in f.segs):
        ctx.distinct(f.signature())
    ctx.sample({'case': case, 'file': f.describe(), 'bytes': len(blob)}, limit=2)
    kind = 'digital' if f.digital else 'fc'
    multibuf = {c['name']: len({s['buf'] for s in c['scalers']}) > 1 for c in f.chans}
    # ---- A: eager decode against the byte-level oracle
    try:
        tf = TdmsFile.read(io.BytesIO(blob))
    except Exception as ex:
        ctx.violation('eager-read-raises/%s' % util.exc_key(ex), {'exc': util.exc_detail(ex), 'file': f.describe()})
        return
    eager_raw, eager_scaled = {}, {}
    for ch in f.chans:
        c = tf['G'][ch['name']]
        want_n = f.total_len(ch)
        if len(c) != want_n:
            ctx.violation('decode/length', {'chan': ch, 'got': len(c), 'want': want_n, 'file': f.describe()})
        for s in ch['scalers']:
            want = f.expected(ch, s)
            try:
                got = c.raw_scaler_data[s['id']] if ch['raw'] else c.raw_data
            except Exception as ex:
                ctx.violation('decode/raises/%s' % util.exc_key(ex), {'chan': ch, 'file': f.describe()})
                continue
            ctx.count('scalers_decoded')
            ctx.cell(('scaler', kind, D.DQ[s['t']][0], 'raw' if ch['raw'] else 'typed', 'multibuf' if multibuf[ch['name']] else 'onebuf'))
            if not eq(got, want):
                ctx.violation('decode/%s/%s' % ('raw' if ch['raw'] else 'typed', kind),
                              {'chan': ch, 'scaler': s, 'got': C.short(C.image(got)), 'want': C.short(C.image(want)), 'file': f.describe()})
            eager_raw[(ch['name'], s['id'])] = got
        if not ch['raw'] or 'scaled_from' in ch:
            try:
                eager_scaled[ch['name']] = c[:]
                if ch.get('bare_scaler_output'):
                    ctx.count('bare_scaler_outputs')
                    want_ = f.expected(ch, [s_ for s_ in ch['scalers'] if s_['id'] == ch['scaled_from']][0])
                    if not eq(c[:], want_) or c.dtype != want_.dtype:
                        ctx.violation('decode/bare-scaler-output', {'chan': ch, 'got_dtype': str(c[:].dtype), 'declared': str(c.dtype), 'want_dtype': str(want_.dtype), 'file': f.describe()})
                if not ch['raw'] and not eq(c[:], f.expected(ch, ch['scalers'][0])):
                    ctx.violation('decode/typed-channel-data', {'chan': ch})
            except Exception as ex:
                ctx.violation('eager-scaled-raises/%s' % util.exc_key(ex), {'chan': ch, 'file': f.describe()})
    # ---- A': the same decode with memory-mapped receivers (eager and lazy), against the same byte-level oracle
    for mode in ('eager', 'lazy'):
        try:
            mf = (TdmsFile.read if mode == 'eager' else TdmsFile.open)(io.BytesIO(blob), memmap_dir=ctx.tmpdir)
            try:
                for ch in f.chans:
                    c = mf['G'][ch['name']]
                    r = c.read_data(scaled=False)
                    for s in ch['scalers']:
                        got = r[s['id']] if isinstance(r, dict) else r
                        ctx.count('scalers_decoded_memmap')
                        if not eq(got, f.expected(ch, s)):
                            ctx.violation('decode-memmap/%s/%s' % (mode, kind), {'chan': ch, 'scaler': s, 'got': C.short(C.image(got)),
                                                                               'want': C.short(C.image(f.expected(ch, s))), 'file': f.describe()})
                    if ch['name'] in eager_scaled and not eq(c[:], eager_scaled[ch['name']]):
                        ctx.violation('decode-memmap/%s/scaled-differs' % mode, {'chan': ch, 'file': f.describe()})
            finally:
                mf.close() if mode == 'lazy' else None
                del mf
        except Exception as ex:
            ctx.violation('decode-memmap/%s/raises/%s' % (mode, util.exc_key(ex)), {'exc': util.exc_detail(ex), 'file': f.describe()})
    # ---- A'': the file supplied as an unbuffered stream that returns at most 48 bytes per call (every metadata field of these
    #      files is shorter than that; most raw buffers are longer)
    from checks.c03 import ShortReadStream
    for mode in ('eager', 'lazy'):
        try:
            sf = (TdmsFile.read if mode == 'eager' else TdmsFile.open)(ShortReadStream(blob, 48))
            try:
                for ch in f.chans:
                    r = sf['G'][ch['name']].read_data(scaled=False)
                    for s in ch['scalers']:
                        got = r[s['id']] if isinstance(r, dict) else r
                        ctx.count('scalers_decoded_short_reads')
                        if not eq(got, f.expected(ch, s)):
                            ctx.violation('decode-short-read-stream/%s/%s' % (mode, kind), {'chan': ch, 'scaler': s, 'got': C.short(C.image(got)),
                                                                                         'want': C.short(C.image(f.expected(ch, s))), 'file': f.describe()})
            finally:
                if mode == 'lazy':
                    sf.close()
        except Exception as ex:
            ctx.violation('decode-short-read-stream/%s/raises/%s' % (mode, util.exc_key(ex)), {'exc': util.exc_detail(ex), 'file': f.describe()})
    # ---- B + C: lazy windows and chunk streams
    try:
        with TdmsFile.open(io.BytesIO(blob)) as lf:
            for ch in f.chans:
                c = lf['G'][ch['name']]
                n = len(c)
                if n <= 12:
                    wins = [(o, l) for o in range(n + 2) for l in list(range(n + 2)) + [None]]
                else:
                    wins = [(rng.randrange(n + 1), rng.choice([None, 0, 1, rng.randrange(n + 2)])) for _ in range(40)]
                for o, l in wins:
                    r = c.read_data(o, l, scaled=False)
                    end = None if l is None else o + l
                    for s in ch['scalers']:
                        got = r[s['id']] if isinstance(r, dict) else r
                        want = eager_raw.get((ch['name'], s['id']))
                        if want is None:
                            continue
                        ctx.count('windows_compared')
                        if not eq(got, want[o:end]):
                            ctx.violation('lazy-window/%s' % kind, {'chan': ch, 'offset': o, 'length': l,
                                                                    'got': C.short(C.image(got)), 'want': C.short(C.image(want[o:end])), 'file': f.describe()})
                if ch['name'] in eager_scaled:
                    E = eager_scaled[ch['name']]
                    parts, off_ok, run = [], True, 0
                    # every other file: the chunk objects are collected first and only read once the stream has ended
                    stream_ = list(c.data_chunks()) if case['s'] % 2 else c.data_chunks()
                    ctx.count('chunk_streams_collected_first' if case['s'] % 2 else 'chunk_streams_read_in_loop')
                    for chunk in stream_:
                        if chunk.offset != run:
                            off_ok = False
                        d = chunk[:]
                        run += len(d)
                        parts.append(d)
                    got = np.concatenate(parts) if parts else E[:0]
                    ctx.count('chunk_streams_compared')
                    if not eq(got, E) or not off_ok:
                        ctx.violation('channel-chunk-stream', {'chan': ch, 'offsets_ok': off_ok, 'file': f.describe()})
                    for (a, b) in [(0, None), (1, n - 1), (n // 2, n // 2 + 3), (n, n + 2)]:
                        if not eq(c[a:b], E[a:b]):
                            ctx.violation('lazy-scaled-slice', {'chan': ch, 'slice': (a, b), 'file': f.describe()})
            # file-level stream
            acc = {}
            for chunk in (list(lf.data_chunks()) if case['s'] % 2 else lf.data_chunks()):
                for ch in f.chans:
                    if ch['name'] in eager_scaled:
                        cc = chunk['G'][ch['name']]
                        if cc.offset != sum(len(x) for x in acc.get(ch['name'], [])):
                            ctx.violation('file-chunk-stream/offset', {'chan': ch, 'file': f.describe()})
                        acc.setdefault(ch['name'], []).append(cc[:])
            for name, parts in acc.items():
                got = np.concatenate(parts) if parts else eager_scaled[name][:0]
                ctx.count('chunk_streams_compared')
                if not eq(got, eager_scaled[name]):
                    ctx.violation('file-chunk-stream/data', {'chan': name, 'file': f.describe()})
    except contracts.ContractBroken as ex:
        ctx.violation('lazy/contract/%s' % util.exc_key(ex), {'exc': util.exc_detail(ex), 'file': f.describe()})
    except Exception as ex:
        ctx.violation('lazy-raises/%s' % util.exc_key(ex), {'exc': util.exc_detail(ex), 'file': f.describe()})
    # ---- D: truncated final chunk yields complete rows only
    check_cuts(ctx, f, blob, lay, rng, eager_raw, every=(len(blob) - lay[0]['data_start'] <= 300), nsample=40)


def check_cuts(ctx, f, blob, lay, rng, eager_raw, every, nsample, prefix='trunc'):
    from nptdms import TdmsFile
    lo = lay[0]['data_start']
    cuts = range(lo, len(blob)) if every else sorted({rng.randrange(lo, len(blob)) for _ in range(nsample)} if len(blob) > lo else [])
    multibuf = {c['name']: len({s['buf'] for s in c['scalers']}) > 1 for c in f.chans}
    for cut in cuts:
        ctx.count('cuts_checked')
        in_data = any(l['data_start'] < cut < l['end'] for l in lay)
        for mode in ('eager', 'lazy'):
            try:
                if mode == 'eager':
                    tf = TdmsFile.read(io.BytesIO(blob[:cut]))
                else:
                    tf = TdmsFile.open(io.BytesIO(blob[:cut]))
                present = {c.name for g in tf.groups() for c in g.channels()}
                for ch in f.chans:
                    want_n = f.expected_len_after_cut(ch, lay, cut)
                    if ch['name'] not in present:
                        if want_n:
                            ctx.violation('%s/channel-missing' % prefix, {'cut': cut, 'chan': ch})
                        continue
                    c = tf['G'][ch['name']]
                    mb = 'multibuf' if multibuf[ch['name']] else 'onebuf'
                    if len(c) != want_n:
                        ctx.violation('%s/%s/length/%s' % (prefix, mode, mb), {'cut': cut, 'rel': cut - lo, 'got': len(c), 'want': want_n, 'chan': ch, 'file': f.describe()})
                        continue
                    try:
                        r = c.read_data(scaled=False)
                    except contracts.ContractBroken as ex:
                        ctx.violation('%s/%s/contract/%s/%s' % (prefix, mode, util.exc_key(ex), mb), {'cut': cut, 'chan': ch, 'file': f.describe()})
                        continue
                    for s in ch['scalers']:
                        got = r[s['id']] if isinstance(r, dict) else r
                        want = eager_raw.get((ch['name'], s['id']))
                        if want is None:
                            continue
                        if len(got) != want_n or not eq(got, want[:want_n]):
                            ctx.violation('%s/%s/data/%s' % (prefix, mode, mb), {'cut': cut, 'chan': ch, 'got': C.short(C.image(got)), 'want_n': want_n, 'file': f.describe()})
                if mode == 'lazy':
                    tf.close()
            except contracts.ContractBroken as ex:
                ctx.violation('%s/%s/contract/%s' % (prefix, mode, util.exc_key(ex)), {'cut': cut, 'file': f.describe()})
            except Exception as ex:
                anymb = 'some-channel-multibuf' if any(multibuf.values()) else 'all-onebuf'
                ctx.violation('%s/%s/raises/%s/%s' % (prefix, mode, util.exc_key(ex), anymb),
                              {'cut': cut, 'rel': cut - lo, 'exc': util.exc_detail(ex), 'file': f.describe()})


def finalize(merged, tier):
    reasons = []
    for lab, lines in unreached(merged['cells']).items():
        if lines:
            reasons.append('reach: %s lines never executed: %s' % (lab, lines))
    for kind in ('digital', 'fc'):
        for rt in ('raw',):
            for mb in ('multibuf', 'onebuf'):
                if not any(k.startswith("('scaler', '%s'" % kind) and "'%s'" % mb in k for k in merged['cells']):
                    reasons.append('no %s scaler on a %s channel' % (kind, mb))
    return reasons


def evidence_extra(merged, tier):
    return {'reach': summary(merged['cells'])}
