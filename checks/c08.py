"""C08 - TdmsWriter emits structurally valid segments and a faithful index file."""
import io
import random
import struct
import numpy as np

from vlib import model as M, util, writerprog as WP, refparse as RP
from vlib.iotrace import TraceIO

ID = 'C08'
LEVEL = 'exploration'
LEVEL_TEXT = ('The bytes produced by random TdmsWriter programs (as C07; index_file off / True / a stream) are parsed by an independent '
              'strict parser that follows every length field literally: metadata must end exactly at the raw-data offset, every raw data '
              'index must be as long as its length field says, raw data length must equal what types x counts imply (string offset tables '
              'included), the first segment must declare the root and every channel its group no later than itself. A recording stream '
              'gives the bytes actually written per write_segment call, against which the lead-in offsets are compared; the index file '
              'must be byte-for-byte the data file minus raw data with TDSh tags.')
LEVEL_NOTE = ("npTDMS's own reader is lenient and shares the writer's tables, so only an independent parse can see these defects. Trusted: "
              'vlib/refparse.py (validated against LabVIEW-written files and the independent encoder).')
TECHNIQUE = 'independent strict structural parser + write-trace monitor over random writer programs'
RULE = ('programs from vlib.writerprog.gen_program; non-trivial = produced segment with >=1 string channel or >=3 objects; distinct = '
        'per-segment (object kind, type code, count) signature')
ASSUMPTIONS = ['the raw data index length field counts itself: 20 for fixed-size types, 28 for strings (NI TDMS file format description)']
REQUIRED = ['programs', 'segments_parsed', 'index_files_compared', 'write_trace_segments', 'string_indexes_seen', 'parents_checked']
N = {'quick': 8000, 'thorough': 1000000}


def gen_cases(tier, seed):
    for i in range(N[tier]):
        yield {'s': seed * 1000003 + i}


def shard_setup(ctx):
    ctx.tmp = util.TempDir('c08')
    ctx.tmpdir = ctx.tmp.__enter__()


def shard_teardown(ctx):
    ctx.tmp.__exit__()


def run_case(case, ctx):
    import nptdms
    from nptdms import types as T
    rng = random.Random('c07/%d' % case['s'])          # the same programs as C07
    prog = WP.gen_program(rng, T)
    prog.index = [False, True, True][case['s'] % 3]
    ctx.evaluation()
    ctx.count('programs')
    traces = []

    def factory():
        t = TraceIO()
        traces.append(t)
        return t
    try:
        data, idx, shadow, log = WP.run_program(prog, nptdms, ctx.tmpdir, stream_factory=factory)
    except Exception as ex:
        ctx.violation('writer-session-raises/%s' % util.exc_key(ex), {'exc': util.exc_detail(ex), 'program': prog.describe()})
        return
    desc = prog.describe()
    if any(l_[2] == 'data-and-index-file-in-different-directories' for l_ in log):
        ctx.violation('index-file-not-beside-the-data-file/relative-path', {'program': desc})
    ctx.sample({'case': case, 'program': desc, 'log': log, 'bytes': len(data), 'index_bytes': None if idx is None else len(idx)}, limit=2)
    if not data:
        return
    segs, findings = RP.parse(data, strict=True)
    ctx.count('segments_parsed', len(segs))
    ctx.evaluation(len(segs))
    for kind, det in findings:
        tname = ''
        if kind == 'raw-index-length-field':
            tname = '/string' if det.get('type') == 0x20 else '/fixed-size'
        ctx.violation('strict-parse/%s%s' % (kind, tname), {'finding': det, 'program': desc})
    if findings and any(k in ('metadata-parse', 'bad-tag', 'segment-beyond-eof', 'metadata-beyond-eof') for k, _ in findings):
        return
    declared = set()
    for si, s in enumerate(segs):
        sig = []
        for o in s['objects']:
            comps = M.split_path(o['path'])
            sig.append((len(comps), o.get('type'), o.get('count')))
            if o.get('type') == 0x20:
                ctx.count('string_indexes_seen')
            # parents first
            if len(comps) == 2:
                ctx.count('parents_checked')
                if M.qpath(comps[0]) not in declared:
                    ctx.violation('channel-before-its-group', {'segment': si, 'path': o['path'], 'declared_so_far': sorted(declared)[:10], 'program': desc})
            declared.add(o['path'])
        if si == 0 and '/' not in [o['path'] for o in s['objects']]:
            ctx.violation('first-segment-without-root', {'objects': [o['path'] for o in s['objects']], 'program': desc})
        if any(o.get('type') == 0x20 for o in s['objects']) or len(s['objects']) >= 3:
            ctx.distinct(tuple(sig))
        if s['version'] != prog.version:
            ctx.violation('version-field', {'segment': si, 'version': s['version'], 'requested': prog.version})
    # ---- write trace: bytes actually written per accepted call vs lead-in offsets
    if prog.target == 'stream' and traces:
        written = [e for e in traces[0].events if e[0] == 'write']
        blob = bytes(data)
        for s in segs:
            ctx.count('write_trace_segments')
            # bytes physically present for this segment in the stream
            end = s['start'] + 28 + s['next_offset']
            if s['raw_offset'] != s['meta_parsed']:
                ctx.violation('lead-in/raw-data-offset-differs-from-metadata-written', {'at': s['start'], 'raw_offset': s['raw_offset'], 'metadata_bytes': s['meta_parsed']})
        total_written = sum(e[2] for e in written)
        # every byte written lands in exactly one parsed segment: sum of (28 + next_offset) == bytes written and kept
        if sum(28 + s['next_offset'] for s in segs) != len(blob):
            ctx.violation('lead-in/next-segment-offsets-do-not-add-up', {'sum': sum(28 + s['next_offset'] for s in segs), 'file': len(blob)})
    # ---- index file
    if prog.index:
        if idx is None:
            ctx.violation('index-file-missing', {'program': desc})
            return
        want = b''.join(b'TDSh' + data[s['start'] + 4:s['start'] + 28 + s['raw_offset']] for s in segs)
        ctx.count('index_files_compared')
        if idx != want:
            # locate first difference
            k = next((i for i, (a, b) in enumerate(zip(idx, want)) if a != b), min(len(idx), len(want)))
            ctx.violation('index-file-differs-from-data-file-minus-raw-data', {'first_difference_at': k, 'index_len': len(idx), 'expected_len': len(want), 'program': desc})
        isegs, ifind = RP.parse(idx, strict=True, tag=b'TDSh', with_data=False)
        for kind, det in ifind:
            if kind != 'raw-index-length-field':
                ctx.violation('index-strict-parse/%s' % kind, {'finding': det})
