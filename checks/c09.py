"""C09 - a matching index file is transparent."""
import io
import os
import random
import numpy as np

from vlib import model as M, compare as C, contracts, util, fdmon, writerprog as WP

ID = 'C09'
LEVEL = 'exploration'
LEVEL_TEXT = ('Differential monitor with an audit hook: generated data files (metadata-less segments, padded metadata, many segments, '
              'big-endian segments, marker lead-ins, data files truncated beside a complete index) are written to disk; the complete '
              'snapshot (objects, order, properties, lengths, dtypes, data) obtained with read / open / read_metadata WITHOUT an index '
              'file is compared with the one obtained WITH a matching .tdms_index beside the file - produced by the independent encoder '
              'and, for writer-produced files, by TdmsWriter(index_file=True). sys.addaudithook must have observed the library opening '
              'the _index path (else the comparison would be vacuous). Opening the index alone must give the same metadata and every '
              'data read on a non-empty channel must raise.')
LEVEL_NOTE = 'Index-only reads of files whose last lead-in carries the length-unknown marker are excluded (their length needs the data file).'
TECHNIQUE = 'differential monitor (with vs without index) with audit-hook evidence that the index path was really used'
RULE = ('files from vlib.model.gen_file and writer programs; non-trivial = file with >=2 segments or padded/absent metadata in some segment; '
        'distinct = (family, per-segment signatures, truncated?)')
ASSUMPTIONS = ['a truncated data file beside a complete index must read like the truncated data file alone']
REQUIRED = ['relative_name_file_objects', 'foreign_sibling_index_cases', 'with_index_compared', 'index_opened_by_library', 'index_only_opens', 'index_only_data_reads_refused', 'family:model',
            'family:writer', 'family:truncated', 'family:marker', 'modes:read', 'modes:open', 'modes:read_metadata']
N = {'quick': 1600, 'thorough': 300000}


def gen_cases(tier, seed):
    fams = ['model', 'model', 'writer', 'truncated', 'marker']
    for i in range(N[tier]):
        yield {'fam': fams[i % 5], 's': seed * 1000003 + i}
    for i in range(max(4, N[tier] // 200)):
        yield {'fam': 'big-metadata', 's': seed * 1000003 + i}


def shard_setup(ctx):
    contracts.install()
    ctx.tmp = util.TempDir('c09')
    ctx.tmpdir = ctx.tmp.__enter__()
    fdmon.install(ctx.tmpdir)


def shard_teardown(ctx):
    contracts.drain(ctx)
    ctx.tmp.__exit__()


def build(case, ctx):
    rng = random.Random('c09/%s/%d' % (case['fam'], case['s']))
    if case['fam'] == 'writer':
        import nptdms
        from nptdms import types as T
        while True:
            prog = WP.gen_program(rng, T)
            prog.index, prog.target = True, 'path'
            data, idx, shadow, log = WP.run_program(prog, nptdms, ctx.tmpdir)
            if data and idx:
                return data, idx, ('writer', len(data)), prog.describe(), True
    if case['fam'] == 'big-metadata':
        # an index file of more than 1 MiB (block-size thresholds): one property value of 1-3 MiB in an early segment
        segs = M.gen_file(rng, max_segs=6, max_chans=3, p_pad=0.2, p_nometa=0.25)
        while len(segs) < 3:
            segs = M.gen_file(rng, max_segs=6, max_chans=3, p_pad=0.2, p_nometa=0.25)
        host = next(s for s in segs if s.has_meta)
        p0 = host.listing[0][0] if host.listing else None
        size = rng.choice([1 << 20, (1 << 20) + 1, 3 << 19, rng.randrange(1 << 20, 3 << 20)])
        if p0 is not None:
            host.props.setdefault(p0, []).append(('big_blob', 'str', 'x' * size))
        blob, idx, lay = M.encode_file(segs)
        return blob, idx, ('big-metadata', size) + tuple(s.signature() for s in segs), {'big_property_bytes': size, 'segments': len(segs)}, True
    segs = M.gen_file(rng, max_segs=7, max_chans=4, p_pad=0.35, p_nometa=0.25)
    marker = case['fam'] == 'marker'
    if marker:
        while any(ix[0] == 'str' for _, ix in segs[-1].data_objects()) and len(segs[-1].chunks) > 1:
            segs = M.gen_file(rng, max_segs=7, max_chans=4, p_pad=0.35, p_nometa=0.25)
    blob, idx, lay = M.encode_file(segs, marker_last=marker)
    if case['fam'] == 'truncated' and len(blob) > 40:
        blob = blob[:rng.randrange(30, len(blob))]
    nontrivial = len(segs) >= 2 or any(s.pad or not s.has_meta for s in segs)
    return blob, idx, (case['fam'],) + tuple(s.signature() for s in segs), [s.describe() for s in segs][:4], nontrivial


def snap(opener, with_data):
    try:
        tf = opener()
    except Exception as ex:
        return ('raises', type(ex).__name__)
    try:
        return C.snapshot(tf, with_data=with_data)
    finally:
        tf.close()


def run_case(case, ctx):
    from nptdms import TdmsFile
    blob, idx, sig, desc, nontrivial = build(case, ctx)
    ctx.evaluation()
    ctx.count('family:' + case['fam'])
    if nontrivial:
        ctx.distinct(sig)
    ctx.sample({'case': case, 'file': desc, 'bytes': len(blob), 'index_bytes': len(idx)}, limit=2)
    path = os.path.join(ctx.tmpdir, 'x%d.tdms' % os.getpid())
    ipath = path + '_index'
    modes = [('read', lambda: TdmsFile.read(path), True), ('open', lambda: TdmsFile.open(path), True),
             ('read_metadata', lambda: TdmsFile.read_metadata(path), False),
             ('read-raw_ts', lambda: TdmsFile.read(path, raw_timestamps=True), True)]
    if os.path.exists(ipath):
        os.remove(ipath)
    util.write_file(path, blob)
    fdmon.take_opens()
    without = {m: snap(fn, wd) for m, fn, wd in modes}
    if any(p.endswith('_index') for p in fdmon.take_opens()):
        ctx.violation('index-path-opened-although-absent', {})
    util.write_file(ipath, idx)
    for m, fn, wd in modes:
        fdmon.take_opens()
        got = snap(fn, wd)
        opened = fdmon.take_opens()
        ctx.count('with_index_compared')
        ctx.count('modes:' + m.split('-')[0])
        if any(p.endswith('_index') for p in opened):
            ctx.count('index_opened_by_library')
        else:
            ctx.violation('index-beside-file-not-used/%s' % m, {'opened': opened})
        a = without[m]
        if isinstance(a, tuple) or isinstance(got, tuple):
            if a != got:
                ctx.violation('with-index-differs/%s/raises-differently/%s' % (m, case['fam']), {'without': a if isinstance(a, tuple) else 'ok', 'with': got if isinstance(got, tuple) else 'ok', 'file': desc})
            continue
        diffs = C.snapshot_diff(a, got)
        if diffs:
            ctx.violation('with-index-differs/%s/%s/%s' % (m, diffs[0][0], case['fam']), {'diffs': diffs[:4], 'file': desc})
    os.remove(ipath)
    # ---- an index that belongs to ANOTHER file, under a similar name (<stem>.tdms_index beside <stem>.bin), is not this file's index
    if case['fam'] == 'model' and case['s'] % 3 == 0:
        opath = os.path.join(ctx.tmpdir, 'y%d.bin' % os.getpid())
        sibling = os.path.join(ctx.tmpdir, 'y%d.tdms_index' % os.getpid())
        other = M.encode_file(M.gen_file(random.Random('c09sib/%d' % case['s']), max_segs=3, max_chans=2))[1]
        util.write_file(opath, blob)
        util.write_file(sibling, other)
        ctx.count('foreign_sibling_index_cases')
        got = snap(lambda: TdmsFile.read(opath), True)
        a = without['read']
        if isinstance(a, tuple) or isinstance(got, tuple):
            if a != got:
                ctx.violation('foreign-sibling-index-used/raises-differently', {'without': a if isinstance(a, tuple) else 'ok', 'with': got if isinstance(got, tuple) else 'ok'})
        elif C.snapshot_diff(a, got):
            ctx.violation('foreign-sibling-index-used/%s' % C.snapshot_diff(a, got)[0][0], {'diffs': C.snapshot_diff(a, got)[:3], 'file': desc})
        os.remove(opath)
        os.remove(sibling)
        # ... nor is an index of the same name in the CURRENT directory the index of a file object that was opened by a
        # relative name somewhere else
        dir_a, dir_b = os.path.join(ctx.tmpdir, 'day1'), os.path.join(ctx.tmpdir, 'day2')
        os.makedirs(dir_a, exist_ok=True)
        os.makedirs(dir_b, exist_ok=True)
        util.write_file(os.path.join(dir_a, 'log.tdms'), blob)
        util.write_file(os.path.join(dir_b, 'log.tdms_index'), other)
        cwd_ = os.getcwd()
        fobj = None
        try:
            os.chdir(dir_a)
            fobj = open('log.tdms', 'rb')
            os.chdir(dir_b)
            got = snap(lambda: TdmsFile.read(fobj), True)
        finally:
            os.chdir(cwd_)
            if fobj is not None:
                fobj.close()
        ctx.count('relative_name_file_objects')
        if isinstance(a, tuple) or isinstance(got, tuple):
            if a != got:
                ctx.violation('index-from-another-directory-used/raises-differently', {'without': a if isinstance(a, tuple) else 'ok', 'with': got if isinstance(got, tuple) else 'ok'})
        elif C.snapshot_diff(a, got):
            ctx.violation('index-from-another-directory-used/%s' % C.snapshot_diff(a, got)[0][0], {'diffs': C.snapshot_diff(a, got)[:3], 'file': desc})
        os.remove(os.path.join(dir_a, 'log.tdms'))
        os.remove(os.path.join(dir_b, 'log.tdms_index'))
    # ---- index alone
    if case['fam'] in ('model', 'writer'):
        only = os.path.join(ctx.tmpdir, 'only%d.tdms_index' % os.getpid())
        util.write_file(only, idx)
        ref = without['read_metadata']
        held_streams = {k_: io.BytesIO(idx) for k_ in ('stream', 'read-stream', 'ctor-stream', 'read_metadata-stream')}
        for m, fn in (('read', lambda: TdmsFile.read(only)), ('open', lambda: TdmsFile.open(only)), ('read_metadata', lambda: TdmsFile.read_metadata(only)),
                      ('stream', lambda: TdmsFile.open(held_streams['stream'])), ('read-stream', lambda: TdmsFile.read(held_streams['read-stream'])),
                      ('ctor-stream', lambda: TdmsFile(held_streams['ctor-stream'])),
                      ('read_metadata-stream', lambda: TdmsFile.read_metadata(held_streams['read_metadata-stream']))):
            ctx.count('index_only_opens')
            try:
                tf = fn()
                if m.endswith('stream') and held_streams[m].closed:
                    ctx.violation('index-only/%s/callers-index-stream-closed-by-the-library' % m, {'file': desc})
            except Exception as ex:
                ctx.violation('index-only/%s/raises/%s' % (m, util.exc_key(ex)), {'exc': util.exc_detail(ex), 'file': desc})
                continue
            try:
                got = C.snapshot(tf, with_data=False)
                if not isinstance(ref, tuple):
                    diffs = C.snapshot_diff(ref, got)
                    if diffs:
                        ctx.violation('index-only/%s/metadata-differs/%s' % (m, diffs[0][0]), {'diffs': diffs[:4], 'file': desc})
                for g in tf.groups():
                    for ch in g.channels():
                        if len(ch) == 0:
                            continue
                        for op, rd in (('[:]', lambda: ch[:]), ('read_data', lambda: ch.read_data(0, 1)), ('[0]', lambda: ch[0]),
                                       ('data_chunks', lambda: [c[:] for c in ch.data_chunks()]), ('iter', lambda: list(ch))):
                            try:
                                v = rd()
                                ctx.violation('index-only/%s/data-read-returned/%s' % (m, op), {'path': ch.path, 'value': repr(v)[:200], 'file': desc})
                            except Exception:
                                ctx.count('index_only_data_reads_refused')
                if m in ('open', 'stream') and any(len(c) for g in tf.groups() for c in g.channels()):
                    try:
                        list(tf.data_chunks())
                        ctx.violation('index-only/%s/file-data_chunks-returned' % m, {'file': desc})
                    except Exception:
                        ctx.count('index_only_data_reads_refused')
            finally:
                tf.close()
                if m.endswith('stream') and held_streams[m].closed:
                    ctx.violation('index-only/%s/callers-index-stream-closed-by-close' % m, {'file': desc})
        os.remove(only)
