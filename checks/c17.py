"""C17 - sensor scalings invert their sensor laws."""
import io
import math
import random
from fractions import Fraction
import numpy as np

from vlib import model as M, compare as C, util, scalegen as SG

ID = 'C17'
LEVEL = 'exploration'
LEVEL_TEXT = ('Inverse-law oracle: for thousands of physically meaningful parameter sets the measured voltage is computed from a true '
              'temperature/strain by the forward sensor law written independently (Callendar-Van Dusen incl. the T<0 quartic term and '
              'lead-wire configurations; Steinhart-Hart with current excitation or voltage divider; the Wheatstone bridge computed from '
              'the four arm resistances of each of the seven configurations, with lead resistance, gain adjustment and initial voltage), '
              'fed to the real scaling class - directly and through TdmsChannel[:] with NI_Scale properties - and the result must equal '
              'the true quantity within 1e-6 relative. Polynomial scaling is compared with exact Horner evaluation in rational '
              'arithmetic, table scaling with clamped piecewise-linear interpolation by bisection (ascending and descending tables).')
LEVEL_NOTE = ('The lead-wire factors (1 three-wire, 2 two-wire current-excited, 0 otherwise), the (1 + R_L/R_G) lead desensitisation and '
              'the gain factor are NI conventions mirrored by the oracle; everything else follows from the physical law.')
TECHNIQUE = 'inverse-physical-law oracle over random parameter sets, per-branch coverage counters'
RULE = ('parameter sets over physical ranges x 25 points each; non-trivial = set exercising a non-default branch (lead != 0, T < 0, initial '
        'voltage != 0, gain != 1, voltage excitation); distinct = rounded parameter tuple')
ASSUMPTIONS = ['tolerance 1e-6 relative with a 1e-9 absolute floor near zero']
REQUIRED = ['chained_partial_reads', 'poly_through_channel', 'decoy_objects', 'repeated_scale_calls', 'through_channel_chained', 'input_dtype_independence_calls', 'single_precision_points', 'rtd_cross_object_points', 'purity_calls', 'rtd_points', 'rtd_branch_point_sets', 'rtd_quartic_points', 'thermistor_points', 'strain_points', 'poly_points', 'table_points', 'through_channel',
            'branch:rtd:2-wire', 'branch:rtd:3-wire', 'branch:rtd:4-wire', 'branch:thermistor:current', 'branch:thermistor:voltage'] + \
           ['branch:strain:%d' % c for c in (10183, 10184, 10185, 10188, 10189, 10271, 10272)]
N = {'quick': 9600, 'thorough': 1500000}
REL, ABS = 1e-6, 1e-9


def gen_cases(tier, seed):
    kinds = ['rtd', 'thermistor', 'strain', 'poly', 'table', 'rtd0']
    for i in range(N[tier]):
        yield {'k': kinds[i % 6], 's': seed * 1000003 + i}


def run_case(case, ctx):
    rng = random.Random('c17/%s/%d' % (case['k'], case['s']))
    {'rtd': rtd, 'rtd0': rtd, 'thermistor': thermistor, 'strain': strain, 'poly': poly, 'table': table}[case['k']](case, ctx, rng)


def pure_call(ctx, sc, volts, label):
    """scale() must not modify its input and must give the same answer when called again on the same array."""
    x = np.array(volts, dtype='f8')
    keep = x.tobytes()
    first = np.array(sc.scale(x), dtype='f8')
    changed = x.tobytes() != keep
    second = np.array(sc.scale(x), dtype='f8')
    # results of earlier calls must not be overwritten by later calls of the same shape
    r1 = sc.scale(x)
    keep1 = np.array(r1, dtype='f8').tobytes()
    sc.scale(x[::-1].copy())
    if np.array(r1, dtype='f8').tobytes() != keep1:
        ctx.violation('%s/earlier-result-overwritten-by-later-call' % label, {'scaling': type(sc).__name__})
    ctx.count('purity_calls')
    # the raw data type must not matter: float32 (and integer) input gives what the same values give as float64
    for dt_ in ('f4', 'i4'):
        xin = np.array(volts, dtype='f8').astype(dt_) if dt_ == 'f4' else np.round(np.array(volts, dtype='f8') * 1000).astype(dt_)
        if dt_ == 'i4' and label != 'rtd':
            continue
        try:
            with np.errstate(all='ignore'):
                lo_ = np.asarray(sc.scale(xin.copy()))
                hi_ = np.asarray(sc.scale(xin.astype('f8')))
            ctx.count('input_dtype_independence_calls')
            finite = np.isfinite(hi_)
            if lo_.dtype != np.dtype('f8') or not np.allclose(lo_[finite], hi_[finite], rtol=1e-9, atol=1e-12):
                ctx.violation('%s/result-depends-on-raw-data-type/%s' % (label, dt_), {'scaling': type(sc).__name__, 'dtype': str(lo_.dtype),
                                                                                 'max_rel': float(np.nanmax(np.abs(lo_[finite] - hi_[finite]) / (np.abs(hi_[finite]) + 1e-300))) if finite.any() else None})
        except ValueError:
            pass       # e.g. RTD root selection on out-of-range integer volts: judged elsewhere
    if changed or x.tobytes() != keep:
        ctx.violation('%s/scale-modifies-its-input' % label, {'scaling': type(sc).__name__})
    elif not np.array_equal(first, second, equal_nan=True):
        ctx.violation('%s/second-scale-call-differs' % label, {'scaling': type(sc).__name__})
    return first


def within(got, want):
    got, want = np.asarray(got, dtype='f8'), np.asarray(want, dtype='f8')
    return np.abs(got - want) <= REL * np.abs(want) + ABS


def through_channel(ctx, scale_desc, volts, chain=False):
    """Same scaling through NI_Scale properties on a real channel. With chain=True the sensor scale takes its input from
    an earlier Linear scale (a gain/offset calibration): the raw data is the inverse of that calibration."""
    from nptdms import TdmsFile
    ctx.count('through_channel_chained' if chain else 'through_channel')
    volts = np.asarray(volts, dtype='f8')
    raw = volts
    graph = [scale_desc]
    if chain:
        slope, intercept = 0.5, float(np.min(np.abs(volts))) * 0.25
        raw = (volts - intercept) / slope
        graph = [dict(kind='Linear', slope=slope, intercept=intercept, src=SG.RAW), dict(scale_desc, src=0)]
    props = SG.graph_props(graph)
    rng = random.Random(0)
    segs = M.build_file(rng, [('g', 'c', 'f64', len(volts), props)], nseg=1, nchunks=(1,), values_fn=lambda p, t, n: raw)
    blob = M.encode_file(segs)[0]
    whole = TdmsFile.read(io.BytesIO(blob))['g']['c'][:]
    if chain and len(volts) >= 6:
        # consecutive partial reads of the same lazily opened channel must give the windows of the whole
        with TdmsFile.open(io.BytesIO(blob)) as lf:
            lc = lf['g']['c']
            k = len(volts) // 3
            parts = [lc.read_data(0, k), lc.read_data(k, k), lc[2 * k:]]
            ctx.count('chained_partial_reads')
            if not np.array_equal(np.concatenate(parts), whole, equal_nan=True):
                raise AssertionError('consecutive partial reads of a chained scaling differ from the whole read')
    return whole


# ------------------------------------------------------------------ RTD
def rtd(case, ctx, rng):
    import nptdms.scaling as S
    r0 = rng.choice([100.0, 1000.0, 500.0, rng.uniform(50, 2000)])
    a = 3.9083e-3 * rng.choice([1.0, 1.0, rng.uniform(0.97, 1.03)])
    b = -5.775e-7 * rng.choice([1.0, 1.0, rng.uniform(0.97, 1.03)])
    c = -4.183e-12 * rng.choice([1.0, 1.0, rng.uniform(0.9, 1.1), 0.0])      # C = 0: a sensor characterised by A and B only
    current = rng.choice([1e-3, 1e-4, 5e-4, rng.uniform(1e-4, 2e-3)])
    config = rng.choice([2, 3, 4])
    lead = rng.choice([0.0, 0.0, rng.uniform(0.01, 5.0)])
    k = {2: 2.0, 3: 1.0, 4: 0.0}[config]
    if case['k'] == 'rtd0':
        # directed: the branch point T = 0 (R = R0) and its immediate neighbourhood, fully random parameters
        r0, current = rng.uniform(50, 2000), rng.uniform(1e-4, 2e-3)
        a, b, c = 3.9083e-3 * rng.uniform(0.97, 1.03), -5.775e-7 * rng.uniform(0.97, 1.03), -4.183e-12 * rng.uniform(0.9, 1.1)
        temps = np.array([0.0] * 5 + [-1e-13, -1e-11, 1e-13, -1e-9, 1e-9, -1e-7, -1e-5, 1e-5] + [rng.uniform(-1e-6, 1e-6) for _ in range(12)])
        ctx.count('rtd_branch_point_sets')
    else:
        temps = np.array([0.0, 100.0, -200.0, 850.0, -1e-3, 1e-3, 25.0, -40.0] + [rng.uniform(-200, 850) for _ in range(17)])
    res = r0 * (1 + a * temps + b * temps ** 2 + np.where(temps < 0, c * (temps - 100.0) * temps ** 3, 0.0))
    volts = current * (res + k * lead)
    ctx.evaluation(len(temps))
    ctx.count('rtd_points', len(temps))
    ctx.count('rtd_quartic_points', int((temps < 0).sum()))
    ctx.count('branch:rtd:%d-wire' % config)
    params = dict(r0=r0, a=a, b=b, c=c, current=current, config=config, lead=lead)
    if lead or (temps < 0).any():
        ctx.distinct(('rtd', round(r0, 3), round(a, 9), config, round(lead, 3)))
    ctx.sample({'case': case, 'params': params, 'temps': temps[:4].tolist()}, limit=1)
    # another RTD with different coefficients fed with exactly the same voltages: its answers must satisfy ITS forward law
    a2, b2, c2 = a * 1.004, b * 0.99, c * 1.05
    other = S.RtdScaling(current, r0, a2, b2, c2, lead, config, SG.RAW)
    sc = S.RtdScaling(current, r0, a, b, c, lead, config, SG.RAW)
    try:
        sc.scale(volts.copy())                 # first object first (process-wide state would be primed by it)
        t2 = np.asarray(other.scale(volts.copy()), dtype='f8')
        back = r0 * (1 + a2 * t2 + b2 * t2 ** 2 + np.where(t2 < 0, c2 * (t2 - 100.0) * t2 ** 3, 0.0))
        ctx.count('rtd_cross_object_points', len(t2))
        okx = np.abs(back - res) <= 1e-6 * np.abs(res) + 1e-9
        if not okx.all():
            i = int(np.nonzero(~okx)[0][0])
            ctx.violation('rtd/second-object-with-other-coefficients-inconsistent', {'params': [r0, a2, b2, c2], 'T': float(t2[i]), 'R_back': float(back[i]), 'R': float(res[i])})
    except Exception as ex:
        if case['k'] != 'rtd0':
            ctx.violation('rtd/cross-object/raises/%s' % util.exc_key(ex), {'exc': util.exc_detail(ex)})
    try:
        v32 = volts.astype('f4')
        t32 = np.asarray(sc.scale(v32.copy()), dtype='f8')
        back = current * (r0 * (1 + a * t32 + b * t32 ** 2 + np.where(t32 < 0, c * (t32 - 100.0) * t32 ** 3, 0.0)) + k * lead)
        ctx.count('single_precision_points', len(t32))
        ok32 = np.abs(back - v32.astype('f8')) <= 1e-6 * np.abs(v32.astype('f8')) + 1e-12
        if case['k'] != 'rtd0' and not ok32.all():
            i = int(np.nonzero(~ok32)[0][0])
            ctx.violation('rtd/single-precision-input-loses-accuracy', {'params': params, 'V': float(v32[i]), 'T': float(t32[i]), 'V_back': float(back[i])})
    except Exception as ex:
        if case['k'] != 'rtd0':
            ctx.violation('rtd/single-precision/raises/%s' % util.exc_key(ex), {'exc': util.exc_detail(ex)})
    desc = dict(kind='RTD', current=current, r0=r0, a=a, b=b, c=c, lead=lead, config=config, src=SG.RAW)
    for label, fn in (('direct', lambda: pure_call(ctx, sc, volts, 'rtd')), ('channel', lambda: through_channel(ctx, desc, volts)),
                      ('chained-channel', lambda: through_channel(ctx, desc, volts, chain=True))):
        try:
            got = fn()
        except Exception as ex:
            # isolate the temperatures at which it raises
            where = []
            for t, v in zip(temps, volts):
                try:
                    sc.scale(np.array([v]))
                except Exception:
                    where.append(float(t))
            zone = 'at-zero-celsius' if where and all(abs(t) <= 1e-2 for t in where) else 'elsewhere'
            ctx.violation('rtd/raises/%s/%s' % (util.exc_key(ex), zone), {'params': params, 'temperatures': where[:5], 'exc': util.exc_detail(ex)})
            continue
        ok = within(got, temps)
        if not ok.all():
            i = int(np.nonzero(~ok)[0][0])
            ctx.violation('rtd/%s/wrong-temperature/%s' % (label, 'negative-branch' if temps[i] < 0 else 'positive-branch') + ('/lead-compensation' if lead else ''),
                          {'params': params, 'true': float(temps[i]), 'got': float(got[i])})


# ------------------------------------------------------------------ thermistor
def thermistor(case, ctx, rng):
    import nptdms.scaling as S
    a_, b_, c_ = rng.choice([(1.295361e-3, 2.343159e-4, 1.018703e-7), (1.129241e-3, 2.341077e-4, 8.775468e-8),
                             (1.4e-3 * rng.uniform(0.9, 1.1), 2.37e-4 * rng.uniform(0.9, 1.1), 9.9e-8 * rng.uniform(0.8, 1.2))])
    exc = rng.choice([10134, 10322])
    config = rng.choice([2, 3, 4])
    lead = rng.choice([0.0, 0.0, rng.uniform(0.1, 20.0)])
    offset = rng.choice([0.0, 273.15, rng.uniform(-5, 5)])
    r1 = rng.choice([5000.0, 10000.0, rng.uniform(1e3, 1e5)])
    value = rng.choice([1e-4, 1e-5, 5e-5]) if exc == 10134 else rng.choice([2.5, 5.0, 10.0])
    # true resistances 1 kOhm .. 1 MOhm -> temperatures via Steinhart-Hart
    res = np.array([1e3, 1e6, 1e4, 5e3] + [math.exp(rng.uniform(math.log(1e3), math.log(1e6))) for _ in range(21)])
    ln = np.log(res)
    temps = 1.0 / (a_ + b_ * ln + c_ * ln ** 3) - offset
    if exc == 10134:
        k = {2: 2.0, 3: 1.0, 4: 0.0}[config]
        volts = value * (res + k * lead)
        ctx.count('branch:thermistor:current')
    else:
        k = {2: 0.0, 3: 1.0, 4: 0.0}[config]
        rm = res + k * lead
        volts = value * rm / (r1 + rm)
        ctx.count('branch:thermistor:voltage')
    ctx.evaluation(len(res))
    ctx.count('thermistor_points', len(res))
    params = dict(a=a_, b=b_, c=c_, exc_type=exc, exc_value=value, config=config, lead=lead, r1=r1, t_offset=offset)
    if lead or exc == 10322 or offset:
        ctx.distinct(('thermistor', exc, config, round(lead, 2), round(r1), round(offset, 2)))
    ctx.sample({'case': case, 'params': params}, limit=1)
    sc = S.ThermistorScaling(exc, value, config, r1, lead, a_, b_, c_, offset, SG.RAW)
    # a second thermistor with other coefficients is configured and used in the same process before sc answers
    decoy = S.ThermistorScaling(exc, value, config, r1 * 1.1, lead, a_ * 1.02, b_ * 0.97, c_ * 1.1, offset + 1.0, SG.RAW)
    decoy.scale(np.array(volts, dtype='f8'))
    ctx.count('decoy_objects')
    desc = dict(kind='Thermistor', exc_type=exc, exc_value=value, config=config, r1=r1, lead=lead, a=a_, b=b_, c=c_, t_offset=offset, src=SG.RAW)
    for label, fn in (('direct', lambda: pure_call(ctx, sc, volts, 'thermistor')), ('channel', lambda: through_channel(ctx, desc, volts)),
                      ('chained-channel', lambda: through_channel(ctx, desc, volts, chain=True))):
        try:
            got = fn()
        except Exception as ex:
            ctx.violation('thermistor/raises/%s' % util.exc_key(ex), {'params': params, 'exc': util.exc_detail(ex)})
            continue
        ok = within(got, temps)
        if not ok.all():
            i = int(np.nonzero(~ok)[0][0])
            ctx.violation('thermistor/%s/wrong-temperature/%s' % (label, 'current' if exc == 10134 else 'voltage') + ('/lead-compensation' if lead else ''),
                          {'params': params, 'true': float(temps[i]), 'got': float(got[i]), 'resistance': float(res[i])})


# ------------------------------------------------------------------ strain
def strain(case, ctx, rng):
    import nptdms.scaling as S
    config = rng.choice([10183, 10184, 10185, 10188, 10189, 10271, 10272])
    gf = rng.uniform(1.0, 4.0)
    nu = rng.choice([0.3, 0.0, 0.5, rng.uniform(0.0, 0.5)])
    rg = rng.choice([120.0, 350.0, 1000.0])
    rl = rng.choice([0.0, 0.0, rng.uniform(0.1, 10.0)])
    gain = rng.choice([1.0, 1.0, rng.uniform(0.5, 2.0)])
    vex = rng.choice([2.5, 5.0, 10.0, rng.uniform(1.0, 10.0)])
    vinit = rng.choice([0.0, 0.0, rng.uniform(-1e-3, 1e-3)])
    eps = np.array([0.0, 5e-3, -5e-3, 1e-6, -1e-6] + [rng.uniform(-5e-3, 5e-3) for _ in range(20)])
    full = config in (10183, 10184, 10185)
    app = eps / gain if full else eps / (gain * (1.0 + rl / rg))      # apparent strain seen by the ideal bridge
    R0 = rg
    one = np.ones_like(app)
    if config == 10183:
        R1 = R3 = R0 * (1 - app * gf)
        R2 = R4 = R0 * (1 + app * gf)
    elif config == 10184:
        R1, R2 = R0 * (1 - app * nu * gf), R0 * (1 + app * nu * gf)
        R3, R4 = R0 * (1 - app * gf), R0 * (1 + app * gf)
    elif config == 10185:
        R1 = R3 = R0 * (1 - app * nu * gf)
        R2 = R4 = R0 * (1 + app * gf)
    elif config == 10188:
        R1 = R2 = R0 * one
        R3, R4 = R0 * (1 - app * nu * gf), R0 * (1 + app * gf)
    elif config == 10189:
        R1 = R2 = R0 * one
        R3, R4 = R0 * (1 - app * gf), R0 * (1 + app * gf)
    else:
        R1 = R2 = R3 = R0 * one
        R4 = R0 * (1 + app * gf)
    vo = (R3 / (R3 + R4) - R2 / (R1 + R2)) * vex + vinit
    ctx.evaluation(len(eps))
    ctx.count('strain_points', len(eps))
    ctx.count('branch:strain:%d' % config)
    params = dict(config=config, gf=gf, poisson=nu, gage_r=rg, lead=rl, gain=gain, v_ex=vex, v_init=vinit)
    if rl or gain != 1.0 or vinit:
        ctx.distinct(('strain', config, round(gf, 3), round(nu, 3), round(rl, 2), round(gain, 3), vinit != 0))
    ctx.sample({'case': case, 'params': params}, limit=1)
    sc = S.StrainScaling(config, nu, rg, rl, vinit, gf, gain, vex, SG.RAW)
    decoy = S.StrainScaling(config, nu * 0.9, rg * 1.1, rl + 0.5, vinit + 1e-4, gf * 1.05, gain * 1.01, vex * 1.1, SG.RAW)
    decoy.scale(np.array(vo, dtype='f8'))
    ctx.count('decoy_objects')
    desc = dict(kind='Strain', config=config, poisson=nu, gage_r=rg, lead=rl, v_init=vinit, gf=gf, gain=gain, v_ex=vex, src=SG.RAW)
    for label, fn in (('direct', lambda: pure_call(ctx, sc, vo, 'strain')), ('channel', lambda: through_channel(ctx, desc, vo)),
                      ('chained-channel', lambda: through_channel(ctx, desc, vo, chain=True))):
        try:
            got = fn()
        except Exception as ex:
            ctx.violation('strain/raises/%s' % util.exc_key(ex), {'params': params, 'exc': util.exc_detail(ex)})
            continue
        ok = np.abs(np.asarray(got) - eps) <= REL * np.abs(eps) + 1e-12
        if not ok.all():
            i = int(np.nonzero(~ok)[0][0])
            extras = ''.join(['/lead' if rl else '', '/gain' if gain != 1.0 else '', '/initial-voltage' if vinit else ''])
            ctx.violation('strain/%s/wrong-strain/%d%s' % (label, config, extras), {'params': params, 'true': float(eps[i]), 'got': float(got[i])})


# ------------------------------------------------------------------ polynomial / table
def poly(case, ctx, rng):
    import nptdms.scaling as S
    nc = rng.choice([0, 1, 2, 3, 4, 6, 9, 11, 12, 14])
    coeffs = [SG.rand_coeff(rng) for _ in range(nc)]
    t = rng.choice(M.NUMERIC_REAL)
    xs = np.array([rng.choice([0, 1, -1, 7, rng.randrange(-100, 100)]) if t[0] in 'iu' else rng.uniform(-20, 20) for _ in range(25)])
    if t[0] == 'u':
        xs = np.abs(xs)
    xs = xs.astype(M.TYPES[t][1])
    ctx.evaluation(len(xs))
    ctx.count('poly_points', len(xs))
    ctx.distinct(('poly', nc, t, tuple(round(c, 6) for c in coeffs[:3])))
    psc = S.PolynomialScaling(coeffs, SG.RAW)
    S.PolynomialScaling([c_ + 1.0 for c_ in coeffs] + [0.5], SG.RAW).scale(xs.copy())
    ctx.count('decoy_objects')
    got = psc.scale(xs.copy())
    for rep in range(2):
        ctx.count('repeated_scale_calls')
        if not np.array_equal(np.asarray(psc.scale(xs.copy())), np.asarray(got), equal_nan=True):
            ctx.violation('polynomial/repeated-call-differs', {'coeffs': coeffs, 'call': rep + 2})
            break
    for x, g in zip(xs.tolist(), np.asarray(got, dtype='f8').tolist()):
        X = Fraction(x)
        exact, mag = Fraction(0), Fraction(0)
        for c in reversed(coeffs):
            exact = exact * X + Fraction(c)
            mag = mag * abs(X) + abs(Fraction(c))
        tol = 8 * Fraction(np.finfo('f8').eps) * mag + Fraction(1, 10 ** 300)
        if abs(Fraction(g) - exact) > tol:
            ctx.violation('polynomial/differs-from-horner', {'coeffs': coeffs, 'x': x, 'got': g, 'exact': float(exact)})
            break
    # the same polynomial configured through NI_Scale properties (coefficient i is property ..._Coefficients[i])
    if nc:
        try:
            via = np.asarray(through_channel(ctx, dict(kind='Polynomial', coeffs=coeffs, src=SG.RAW), xs.astype('f8')), dtype='f8')
            direct = np.asarray(psc.scale(xs.astype('f8')), dtype='f8')
            ctx.count('poly_through_channel')
            if not np.array_equal(via, direct, equal_nan=True):
                ctx.violation('polynomial/through-properties-differs/%s' % ('more-than-10-coefficients' if nc > 10 else 'up-to-10-coefficients'),
                              {'coeffs': coeffs, 'via_properties': via[:3].tolist(), 'direct': direct[:3].tolist()})
        except Exception as ex:
            ctx.violation('polynomial/through-properties-raises/%s' % util.exc_key(ex), {'coeffs': coeffs, 'exc': util.exc_detail(ex)})
    ctx.sample({'case': case, 'coeffs': coeffs, 'type': t}, limit=1)


def table(case, ctx, rng):
    import nptdms.scaling as S
    m = rng.randint(2, 7)
    xs = sorted({round(rng.uniform(-50, 50), 3) for _ in range(m + 3)})[:m]
    if len(xs) < 2:
        xs = [-1.0, 2.0]
    ys = [SG.rand_coeff(rng) for _ in xs]
    desc_order = rng.random() < 0.5
    if desc_order:
        xs, ys = xs[::-1], ys[::-1]
    pts = np.array([min(xs) - 5, max(xs) + 5, xs[0], xs[-1]] + [rng.uniform(min(xs) - 3, max(xs) + 3) for _ in range(21)])
    ctx.evaluation(len(pts))
    ctx.count('table_points', len(pts))
    ctx.distinct(('table', desc_order, tuple(xs)))
    tsc = S.TableScaling(np.array(ys), np.array(xs), SG.RAW)
    S.TableScaling(np.array(ys)[::-1] + 1.0, np.array(xs)[::-1], SG.RAW).scale(pts.copy())
    ctx.count('decoy_objects')
    got = tsc.scale(pts.copy())
    want = SG.table_interp(pts, xs, ys)
    # the same object is used for every chunk / window of a channel: later calls must answer like the first
    for rep in range(3):
        again = tsc.scale(pts.copy())
        ctx.count('repeated_scale_calls')
        if not np.array_equal(np.asarray(again), np.asarray(got), equal_nan=True):
            ctx.violation('table/repeated-call-differs/%s' % ('descending' if desc_order else 'ascending'), {'inputs(scaled)': xs, 'outputs(pre-scaled)': ys, 'call': rep + 2})
            break
    scale_ = max(abs(v) for v in ys) + 1e-300
    ok = np.abs(np.asarray(got) - want) <= 1e-12 * scale_
    if not ok.all():
        i = int(np.nonzero(~ok)[0][0])
        where = 'clamped' if pts[i] <= min(xs) or pts[i] >= max(xs) else 'interior'
        ctx.violation('table/differs-from-interpolation/%s/%s' % ('descending' if desc_order else 'ascending', where),
                      {'inputs(scaled)': xs, 'outputs(pre-scaled)': ys, 'x': float(pts[i]), 'got': float(got[i]), 'want': float(want[i])})
    ctx.sample({'case': case, 'xs': xs, 'ys': ys}, limit=1)
