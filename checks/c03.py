"""C03 - every way of obtaining a channel's data gives the same data."""
import io
import os
import pathlib
import random
import numpy as np

from vlib import model as M, compare as C, contracts, util, scalegen as SG
from checks import c11 as DQ
from checks.c04 import scalar_image

ID = 'C03'
LEVEL = 'exploration'
LEVEL_TEXT = ('Cross-checking monitor: for generated files of three families (general model files of all 17 types, channels with '
              'random NI_Scale graphs, DAQmx files) every access path - read/open x [:], [...], read_data(), .data, iteration, every '
              'integer index, concatenated channel.data_chunks() and TdmsFile.data_chunks() with their offsets, memmap_dir on/off, '
              'path / BytesIO / real file object, raw_timestamps on/off, and the unscaled accessors - is executed on the same file and '
              'compared bit-exactly with the eager channel[:].')
LEVEL_NOTE = 'Reference is the eager channel[:] (tied to the model by C01/C11/C13). Per-path call counts are in the evidence.'
TECHNIQUE = 'differential monitor across all access paths of the real API on generated files'
RULE = ('files: vlib.model.gen_file, scaled channels (vlib.scalegen graphs), vlib.daqmx files; non-trivial = channel whose data spans '
        '>=2 chunks or segments; distinct = (family, per-segment signatures or DAQmx signature)')
ASSUMPTIONS = ['raw_timestamps=True and False are related by TimestampArray.as_datetime64("us")']
REQUIRED = ['chunk_arrays_rechecked', 'family:big', 'path:file.data_chunks.collected', 'path:file.data_chunks.streamed', 'path:lazy[:]', 'path:lazy.data_chunks', 'path:file.data_chunks', 'path:iter', 'path:index', 'path:memmap-eager',
            'path:memmap-lazy', 'path:by-path', 'path:fileobj', 'path:raw_ts', 'path:unscaled', 'path:eager.read_data', 'path:eager.data',
            'family:model', 'family:scaled', 'family:daqmx', 'untyped_channels']
N = {'quick': 2400, 'thorough': 120000}


def gen_cases(tier, seed):
    for i in range(N[tier]):
        yield {'fam': ['model', 'scaled', 'daqmx'][i % 3], 's': seed * 1000003 + i}
    for i in range(max(16, N[tier] // 20)):
        yield {'fam': 'big', 's': seed * 1000003 + i}


def shard_setup(ctx):
    contracts.install()
    ctx.tmp = util.TempDir('c03')
    ctx.tmpdir = ctx.tmp.__enter__()


def shard_teardown(ctx):
    contracts.drain(ctx)
    ctx.tmp.__exit__()


def build(case):
    rng = random.Random('c03/%s/%d' % (case['fam'], case['s']))
    if case['fam'] == 'model':
        segs = M.gen_file(rng, max_segs=6, max_chans=4, p_props=0.1)
        blob, _, lay = M.encode_file(segs)
        cut = None
        if case['s'] % 5 == 0 and segs[-1].chunks and all(ix[0] != 'str' for _, ix in segs[-1].data_objects()):
            # a crash-truncated copy is a readable file too: every access path must agree on what it holds
            l = lay.segs[-1]
            if l['end'] - l['data_start'] > 1:
                cut = rng.randrange(l['data_start'] + 1, l['end'])
                blob = blob[:cut]
        return blob, (cut is not None,) + tuple(s.signature() for s in segs), [{'cut': cut}] + [s.describe() for s in segs][:4], any(len(s.chunks) > 1 for s in segs) or len(segs) > 1
    if case['fam'] == 'scaled':
        chans = []
        for i in range(rng.randint(1, 3)):
            t = rng.choice(M.NUMERIC_REAL + ['f32u', 'f64u'])
            sc = SG.gen_graph(rng)
            chans.append(('g', 'c%d' % i, t, rng.choice([1, 2, 3, 5]), SG.graph_props(sc, with_count=rng.random() < 0.7)))

        def vf(p, t, n):
            dt = M.TYPES[t][1]
            if dt == '?':
                return np.array([rng.getrandbits(1) for _ in range(n)], dtype='?')
            return np.array([rng.randrange(-5, 60) if dt[0] != 'u' else rng.randrange(0, 60) for _ in range(n)]).astype(dt)
        segs = M.build_file(rng, chans, nseg=rng.randint(1, 4), nchunks=(1, 2, 3), endian=rng.choice(['<', '>', '<>']), values_fn=vf,
                            inter=rng.random() < 0.3 and len({c[3] for c in chans}) == 1)
        blob = M.encode_file(segs)[0]
        return blob, ('scaled',) + tuple(s.signature() for s in segs), [s.describe() for s in segs][:2], True
    if case['fam'] == 'big':
        # chunks of several kilobytes: block-wise I/O (streams that return short reads, buffer sizes) only shows on these
        nch = rng.randint(1, 3)
        n = rng.randint(300, 3000)
        inter = rng.random() < 0.4
        chans = [('g', 'c%d' % i, rng.choice(['f64', 'i32', 'i16', 'u8', 'f32', 'i64']), n if inter else rng.randint(300, 3000), []) for i in range(nch)]

        def vfb(p, t, k):
            dt = M.TYPES[t][1]
            return (np.arange(k, dtype='i8') * 7 % 251).astype(dt)
        segs = M.build_file(rng, chans, nseg=rng.randint(1, 2), nchunks=(rng.randint(1, 3),), endian=rng.choice('<>'), values_fn=vfb, inter=inter)
        blob = M.encode_file(segs)[0]
        return blob, ('big',) + tuple(s.signature() for s in segs), [s.describe() for s in segs][:2], True
    f, _ = DQ.build({'s': case['s']})
    blob = f.encode()[0]
    return blob, ('daqmx',) + f.signature(), f.describe(), True


class ShortReadStream(io.RawIOBase):
    """Seekable raw (unbuffered) stream that hands out at most max_read bytes per call, as io.RawIOBase permits."""
    def __init__(self, contents, max_read):
        super().__init__()
        self._inner = io.BytesIO(contents)
        self._max_read = max_read

    def readable(self):
        return True

    def seekable(self):
        return True

    def readinto(self, b):
        view = memoryview(b).cast('B')
        data = self._inner.read(min(len(view), self._max_read))
        view[:len(data)] = data
        return len(data)

    def seek(self, offset, whence=os.SEEK_SET):
        return self._inner.seek(offset, whence)

    def tell(self):
        return self._inner.tell()


def img(x):
    if isinstance(x, dict):
        return ('dict', tuple((k, C.image(v)) for k, v in sorted(x.items())))
    return C.image(x)


def run_case(case, ctx):
    from nptdms import TdmsFile
    blob, sig, desc, nontrivial = build(case)
    ctx.evaluation()
    ctx.count('family:' + case['fam'])
    if nontrivial:
        ctx.distinct(sig)
    ctx.sample({'case': case, 'file': desc}, limit=3)
    path = os.path.join(ctx.tmpdir, 'f%d.tdms' % os.getpid())
    util.write_file(path, blob)
    try:
        eager = TdmsFile.read(io.BytesIO(blob))
    except Exception as ex:
        ctx.violation('eager-read-raises/%s' % util.exc_key(ex), {'exc': util.exc_detail(ex), 'file': desc})
        return
    # reference per channel
    ref = {}
    for g in eager.groups():
        for ch in g.channels():
            key = (g.name, ch.name)
            daq_raw = ch.data_type is not None and ch.data_type.__name__ == 'DaqMxRawData'
            try:
                ref[key] = {'R': ch[:], 'untyped': ch.data_type is None, 'n': len(ch), 'daq_raw': daq_raw}
            except Exception as ex:
                if daq_raw:
                    ref[key] = {'R': None, 'untyped': False, 'n': len(ch), 'daq_raw': True}   # no scaling info: only unscaled paths
                else:
                    ctx.violation('eager[:]-raises/%s' % util.exc_key(ex), {'chan': key, 'file': desc})
    variants = [
        ('eager', lambda: TdmsFile.read(io.BytesIO(blob)), False),
        ('lazy', lambda: TdmsFile.open(io.BytesIO(blob)), False),
        ('memmap-eager', lambda: TdmsFile.read(io.BytesIO(blob), memmap_dir=ctx.tmpdir), False),
        ('memmap-lazy', lambda: TdmsFile.open(io.BytesIO(blob), memmap_dir=ctx.tmpdir), False),
        ('by-path', lambda: TdmsFile.read(path), False),
        ('by-path-lazy', lambda: TdmsFile.open(pathlib.Path(path)), False),
        ('constructor', lambda: TdmsFile(pathlib.Path(path), memmap_dir=None), False),
        ('raw_ts-eager', lambda: TdmsFile.read(io.BytesIO(blob), raw_timestamps=True), True),
        ('raw_ts-lazy', lambda: TdmsFile.open(io.BytesIO(blob), raw_timestamps=True), True),
    ]
    if case['fam'] == 'big':
        cap = 4096 if case['s'] % 2 else 1024          # larger than every metadata field of these files, smaller than their chunks
        variants += [('short-read-stream-eager', lambda: TdmsFile.read(ShortReadStream(blob, cap)), False),
                     ('short-read-stream-lazy', lambda: TdmsFile.open(ShortReadStream(blob, cap)), False)]
    for vname, opener, raw_ts in variants:
        try:
            tf = opener()
        except Exception as ex:
            ctx.violation('open/%s/raises/%s' % (vname, util.exc_key(ex)), {'file': desc})
            continue
        try:
            check_variant(ctx, tf, vname, raw_ts, ref, desc, eager)
        finally:
            tf.close()
    with open(path, 'rb') as fobj:
        try:
            tf = TdmsFile.open(fobj)
            check_variant(ctx, tf, 'fileobj', False, ref, desc, eager)
            tf.close()
            if fobj.closed:
                ctx.violation('fileobj/closed-by-library', {})
        except Exception as ex:
            ctx.violation('open/fileobj/raises/%s' % util.exc_key(ex), {'file': desc})


def same(ctx, vname, access, got, want, info, raw_ts=False, kind=''):
    ctx.count('path:' + access.split('(')[0] if not access.startswith(('lazy', 'eager', 'file', 'iter', 'index')) else 'path:' + access)
    gi = img(got)
    if raw_ts and gi[0] == 'ts':
        # documented change of representation
        conv = np.asarray(got.as_datetime64('us'))
        gi = C.image(conv)
    if not C.img_equal(gi, img(want)):
        ctx.violation('differs/%s/%s%s' % (vname.replace('by-path-lazy', 'by-path'), access, kind),
                      dict(info, got=C.short(gi) if gi[0] != 'dict' else 'dict', want=C.short(img(want)) if img(want)[0] != 'dict' else 'dict'))


def check_variant(ctx, tf, vname, raw_ts, ref, desc, eager0):
    is_lazy = vname in ('lazy', 'memmap-lazy', 'by-path-lazy', 'raw_ts-lazy', 'fileobj', 'short-read-stream-lazy')
    base = {'constructor': 'by-path', 'memmap-eager': 'memmap-eager', 'memmap-lazy': 'memmap-lazy', 'by-path': 'by-path', 'by-path-lazy': 'by-path',
            'raw_ts-eager': 'raw_ts', 'raw_ts-lazy': 'raw_ts', 'fileobj': 'fileobj'}.get(vname)
    if base:
        ctx.count('path:' + base)
    for (gname, cname), r in ref.items():
        ch = tf[gname][cname]
        R, n = r['R'], r['n']
        info = {'chan': (gname, cname), 'variant': vname, 'n': n, 'untyped': r['untyped'], 'file': desc}
        kind = '/untyped' if r['untyped'] else ''
        if r['untyped']:
            ctx.count('untyped_channels')
        if len(ch) != n:
            ctx.violation('differs/%s/len' % vname, info)
            continue

        def attempt(access, fn, want, count_as=None):
            try:
                got = fn()
                gi = img(got)
                if raw_ts and gi[0] == 'ts':
                    # the documented change of representation is itself a library call
                    gi = C.image(np.asarray(got.as_datetime64('us')) if len(got) else np.zeros(0, dtype='M8[us]'))
            except Exception as ex:
                ctx.violation('raises/%s/%s/%s%s' % ('lazy' if is_lazy else 'eager', access, util.exc_key(ex), kind), dict(info, exc=util.exc_detail(ex)))
                return
            ctx.count('path:' + (count_as or access))
            wi = img(want)
            if not C.img_equal(gi, wi):
                ctx.violation('differs/%s/%s%s' % ('lazy' if is_lazy else 'eager', access, kind),
                              dict(info, got=C.short(gi) if gi[0] != 'dict' else repr(gi)[:300], want=C.short(wi) if wi[0] != 'dict' else repr(wi)[:300]))
        pre = 'lazy' if is_lazy else 'eager'
        if R is not None:
            attempt('[:]', lambda: ch[:], R, pre + '[:]')
            attempt('[...]', lambda: ch[...], R, pre + '[...]')
            attempt('read_data', lambda: ch.read_data(), R, pre + '.read_data')
            if not is_lazy:
                attempt('.data', lambda: ch.data, R, 'eager.data')
            # iteration and integer indexing
            def it():
                vals = list(ch)
                if raw_ts and vals and hasattr(vals[0], 'as_datetime64'):
                    vals = [v.as_datetime64('us') for v in vals]
                return [scalar_image(v) for v in vals]
            try:
                got = it()
                ctx.count('path:iter')
                if got != [scalar_image(v) for v in R]:
                    ctx.violation('differs/%s/iteration%s' % (pre, kind), info)
            except Exception as ex:
                ctx.violation('raises/%s/iteration/%s%s' % (pre, util.exc_key(ex), kind), dict(info, exc=util.exc_detail(ex)))
            # windows, including empty ones, on every kind of file object
            for off, ln in ((0, 0), (n // 2, 0), (n, 0), (n // 2, 1), (max(n - 1, 0), 5), (1, n)):
                attempt('read_data(%s,%s)' % ('0' if off == 0 else 'n' if off == n else 'k', '0' if ln == 0 else 'm'),
                        lambda: ch.read_data(off, ln), R[off:off + ln], pre + '.read_data(window)')
            # offsets and lengths given as NumPy integers of small widths (taken from an index array) mean the same as Python ints
            if n >= 4:
                for o_ in sorted({n // 3, n // 2, (2 * n) // 3, n - 3}):
                    for ity in (np.int16, np.int32, np.uint16, np.int64):
                        if o_ < 32000:
                            attempt('read_data(%s offset)' % ity.__name__, lambda: ch.read_data(ity(o_), ity(3)), R[o_:o_ + 3], pre + '.read_data(numpy-int)')
            if n <= 30:
                try:
                    order = list(range(n)) + [-1] * (n > 0) + list(range(n - 1, -1, -1)) + [(7 * j + 3) % n for j in range(n)]
                    for i in order:
                        v = ch[i]
                        if raw_ts and hasattr(v, 'as_datetime64'):
                            v = v.as_datetime64('us')
                        ctx.count('path:index')
                        if scalar_image(v) != scalar_image(R[i]):
                            ctx.violation('differs/%s/index%s' % (pre, kind), dict(info, index=i))
                            break
                except Exception as ex:
                    ctx.violation('raises/%s/index/%s%s' % (pre, util.exc_key(ex), kind), dict(info, exc=util.exc_detail(ex)))
            if is_lazy:
                def chunks():
                    parts, kept, kept_chunks, run = [], [], [], 0
                    for c in ch.data_chunks():
                        if c.offset != run:
                            raise AssertionError('chunk offset %d != running count %d' % (c.offset, run))
                        d = c[:]
                        run += len(d)
                        if raw_ts and C.image(d)[0] == 'ts':
                            d = np.asarray(d.as_datetime64('us')) if len(d) else np.zeros(0, dtype='M8[us]')
                        parts.append(C.image(d))
                        kept.append(d)
                        kept_chunks.append(c)
                    # np.concatenate([c[:] for c in ch.data_chunks()]): arrays handed out earlier must still hold their values
                    ctx.count('chunk_arrays_rechecked', len(kept))
                    for k_, (d, im) in enumerate(zip(kept, parts)):
                        if not C.img_equal(C.image(d), im):
                            raise AssertionError('array of chunk %d changed while later chunks were read' % k_)
                    # ... and a chunk object asked again gives the same values, without disturbing what it handed out before
                    if not raw_ts:
                        for k_, (c_, d, im) in enumerate(zip(kept_chunks, kept, parts)):
                            if not C.img_equal(C.image(c_[:]), im) or not C.img_equal(C.image(d), im):
                                raise AssertionError('chunk %d changed while it was asked a second time' % k_)
                    return parts
                try:
                    parts = chunks()
                    ctx.count('path:lazy.data_chunks')
                    if not C.img_equal(C.image_concat(parts, like=C.image_slice(C.image(R), slice(0, 0))), C.image(R), loose_kind=True):
                        ctx.violation('differs/lazy/channel.data_chunks%s' % kind, info)
                except AssertionError as ex:
                    ctx.violation(('chunk-array-changed-later' if 'changed while' in str(ex) else 'chunk-offset') + '/channel.data_chunks', dict(info, msg=str(ex)))
                except Exception as ex:
                    ctx.violation('raises/lazy/channel.data_chunks/%s%s' % (util.exc_key(ex), kind), dict(info, exc=util.exc_detail(ex)))
        # ---- unscaled accessors
        e0 = eager0[gname][cname]
        try:
            U = e0.read_data(scaled=False)
        except Exception as ex:
            ctx.violation('raises/eager/read_data(scaled=False)/%s%s' % (util.exc_key(ex), kind), dict(info, exc=util.exc_detail(ex)))
            continue
        if raw_ts:
            continue
        attempt('read_data(scaled=False)', lambda: ch.read_data(scaled=False), U, 'unscaled')
        if n:
            # an integer lookup first (it leaves a scaled chunk in the channel's cache), then unscaled windows inside that chunk
            def after_lookup(o_, l_):
                ch[o_]
                return ch.read_data(o_, l_, scaled=False)
            for o_, l_ in ((0, 1), (0, 2), (n - 1, 1)):
                wantU = {k_: v_[o_:o_ + l_] for k_, v_ in U.items()} if isinstance(U, dict) else U[o_:o_ + l_]
                if R is not None or not isinstance(U, dict):
                    attempt('[i] then read_data(i,m,scaled=False)', lambda: after_lookup(o_, l_), wantU, 'unscaled-after-lookup')
        if not is_lazy:
            if isinstance(U, dict):
                attempt('raw_scaler_data', lambda: ch.raw_scaler_data, U, 'unscaled')
                if len(U) == 1:
                    attempt('raw_data', lambda: ch.raw_data, list(U.values())[0], 'unscaled')
            else:
                attempt('raw_data', lambda: ch.raw_data, U, 'unscaled')
                attempt('raw_scaler_data', lambda: ch.raw_scaler_data, {}, 'unscaled')
    # ---- file-level chunk stream
    if is_lazy:
        acc, runs, bad_off = {}, {}, False
        try:
            # a first pass over the file-level stream that is given up after two chunks must not disturb the next pass
            try:
                it_ = tf.data_chunks()
                next(it_)
                next(it_)
            except StopIteration:
                pass
            it_ = None
            stream_chunks = list(tf.data_chunks()) if (len(ref) % 2) else tf.data_chunks()     # half of the files: collected first, inspected afterwards
            ctx.count('path:file.data_chunks.collected' if isinstance(stream_chunks, list) else 'path:file.data_chunks.streamed')
            for chunk in stream_chunks:
                for (gname, cname), r in ref.items():
                    if r['R'] is None:
                        continue
                    cc = chunk[gname][cname]
                    key = (gname, cname)
                    if cc.offset != runs.get(key, 0):
                        ctx.violation('chunk-offset/file.data_chunks', {'chan': key, 'offset': cc.offset, 'running': runs.get(key, 0), 'file': desc})
                    d = cc[:]
                    runs[key] = runs.get(key, 0) + len(d)
                    if raw_ts and C.image(d)[0] == 'ts':
                        d = np.asarray(d.as_datetime64('us')) if len(d) else np.zeros(0, dtype='M8[us]')
                    acc.setdefault(key, []).append(C.image(d))
            ctx.count('path:file.data_chunks')
            for key, r in ref.items():
                if r['R'] is None:
                    continue
                Ri = C.image(r['R'])
                got = C.image_concat(acc.get(key, []), like=C.image_slice(Ri, slice(0, 0)))
                if not C.img_equal(got, Ri, loose_kind=True):
                    ctx.violation('differs/lazy/file.data_chunks', {'chan': key, 'variant': vname, 'got': C.short(got), 'want': C.short(Ri), 'file': desc})
        except Exception as ex:
            ctx.violation('raises/lazy/file.data_chunks/%s' % util.exc_key(ex), {'variant': vname, 'exc': util.exc_detail(ex), 'file': desc})
