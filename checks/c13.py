"""C13 - scaled data is the dataflow evaluation of the NI_Scale definitions."""
import io
import random
import struct
import numpy as np

from vlib import model as M, compare as C, contracts, util, scalegen as SG
from vlib import daqmx as D
from vlib.model import enc_str

ID = 'C13'
LEVEL = 'exploration'
LEVEL_TEXT = ('Random NI_Scale graphs (depth 1-5, arbitrary input-source wiring incl. several scales reading the raw data, Linear / '
              'Polynomial / Table / Add / Subtract, coefficients incl. 0, negative and huge, with and without NI_Number_Of_Scales and size '
              'properties, NI_Scaling_Status variants) are attached to channels of every real numeric raw type at channel, group and file '
              'level (and mixtures, to decide precedence); the real scaled data is compared with an independent dataflow evaluator, '
              'eagerly, lazily and for windows; DAQmx channels feed scaler data by id. A purity monitor makes every raw array read-only '
              'while the real MultiScaling.scale runs and compares its bytes before and after.')
LEVEL_NOTE = ('Exact comparison for Linear/Add/Subtract graphs; <= 8 eps x magnitude bound when a Polynomial or Table scale is involved. '
              'Subtract = right - left is the convention the code documents as NI\'s. Raw data outside NI scaling\'s domain '
              '(string/timestamp/complex) is not generated.')
TECHNIQUE = 'reference dataflow evaluator + write-protection/digest purity monitor hooked on the real scaling entry point'
RULE = ('graphs from vlib.scalegen.gen_graph; non-trivial = graph with >=2 scales or properties on a non-channel level; distinct = (scale '
        'kinds + wiring, raw type, level)')
ASSUMPTIONS = ['int raw data is converted to float64 before Linear/Polynomial/Table evaluation (NumPy promotion)']
REQUIRED = ['scaled_index_then_window', 'count_variant_reads', 'daqmx_graphs_without_count', 'purity_cases', 'graphs', 'scaled_compared', 'windows_compared', 'lazy_compared', 'purity_checks', 'level:channel', 'level:group', 'level:root',
            'status_scaled_cases', 'daqmx_graphs', 'precedence_cases', 'no_count_property', 'parents:first', 'parents:last', 'parents:later']
N = {'quick': 10000, 'thorough': 1000000}


SENSOR_KINDS = ['Linear', 'Linear-identity', 'Polynomial', 'Table', 'RTD', 'Thermistor', 'Thermocouple0', 'Thermocouple1', 'AdvancedAPI'] + \
               ['Strain:%d' % c for c in (10183, 10184, 10185, 10188, 10189, 10271, 10272)]


def gen_cases(tier, seed):
    for i in range(N[tier]):
        yield {'s': seed * 1000003 + i, 'fam': 'daqmx' if i % 10 == 9 else 'plain'}
    for i in range(N[tier] // 50):
        yield {'fam': 'count-variants', 's': seed * 1000003 + i}
    for k in SENSOR_KINDS:
        for t in ('f64', 'f32', 'i16', 'f64u'):
            for rep in range(2 if tier == 'quick' else 20):
                yield {'fam': 'purity', 'kind': k, 't': t, 's': seed * 1000003 + rep}


def shard_setup(ctx):
    contracts.install()
    import nptdms.scaling as sc
    orig = sc.MultiScaling.scale
    ctx.purity = {'checks': 0, 'bad': []}

    def guarded(self, raw_channel_data):
        arrays = []
        if getattr(raw_channel_data, 'data', None) is not None and isinstance(raw_channel_data.data, np.ndarray):
            arrays.append(raw_channel_data.data)
        for a in (getattr(raw_channel_data, 'scaler_data', None) or {}).values():
            if isinstance(a, np.ndarray):
                arrays.append(a)
        before = [(a, a.tobytes(), a.flags.writeable) for a in arrays]
        for a in arrays:
            try:
                a.flags.writeable = False
            except ValueError:
                pass
        try:
            return orig(self, raw_channel_data)
        except ValueError as ex:
            if 'read-only' in str(ex):
                ctx.purity['bad'].append(('write-attempt', util.exc_key(ex)))
            raise
        finally:
            for a, b, w in before:
                try:
                    a.flags.writeable = w
                except ValueError:
                    pass
                ctx.purity['checks'] += 1
                if a.tobytes() != b:
                    ctx.purity['bad'].append(('bytes-changed', str(a.dtype)))
    sc.MultiScaling.scale = guarded


def shard_teardown(ctx):
    contracts.drain(ctx)
    ctx.count('purity_checks', ctx.purity['checks'])


def graph_sig(sc):
    return tuple((s['kind'], s.get('src'), s.get('left'), s.get('right'), len(s.get('coeffs', ())), len(s.get('pre', ()))) for s in sc)


def close_enough(got, want, scales, raw, memo=None):
    got = np.asarray(got)
    want = np.asarray(want)
    if got.shape != want.shape:
        return False
    inexact = any(s['kind'] in ('Polynomial', 'Table') for s in scales)
    if not inexact or got.dtype.kind != 'f' or want.dtype.kind != 'f':
        return C.img_equal(C.image(got), C.image(want))
    bound = SG.poly_bound(scales, raw, memo)
    tol = 8 * np.finfo('f8').eps * bound + 1e-300
    g, w = got.astype('f8'), want.astype('f8')
    both_nan = np.isnan(g) & np.isnan(w)
    inf_eq = np.isinf(g) & np.isinf(w) & (np.sign(g) == np.sign(w))
    with np.errstate(invalid='ignore', over='ignore'):
        ok = both_nan | inf_eq | (np.abs(g - w) <= tol) | ~np.isfinite(bound)
    return bool(ok.all()) and got.dtype == want.dtype


def purity_case(case, ctx):
    """Every scale type (also the sensor scalings): scaling never modifies the raw data, repeated reads agree."""
    from nptdms import TdmsFile
    from checks.c14 import scale_for
    rng = random.Random('c13p/%s/%s/%d' % (case['kind'], case['t'], case['s']))
    kind = case['kind']
    if kind.startswith('Strain:'):
        sc = [dict(kind='Strain', config=int(kind[7:]), poisson=0.3, gage_r=350.0, lead=rng.choice([0.0, 1.5]), v_init=rng.choice([0.0, 1e-4, -1e-4]),
                   gf=2.1, gain=rng.choice([1.0, 1.1]), v_ex=2.5, src=SG.RAW)]
    else:
        sc = scale_for(kind)
    t = case['t']
    dt = M.TYPES[t][1]
    n = 6

    def vf(p, tt, k):
        return np.array([rng.choice([1, 2, 3]) * (0.01 if dt[0] == 'f' else 1) for _ in range(k)]).astype(dt)
    segs = M.build_file(rng, [('g', 'c', t, n, SG.graph_props(sc))], nseg=2, nchunks=(1, 2), values_fn=vf, continuation='same')
    blob = M.encode_file(segs)[0]
    raw = M.Expected(segs).flat("/'g'/'c'")
    ctx.evaluation()
    ctx.count('purity_cases')
    ctx.distinct(('purity', kind, t))
    info = {'scale': sc, 'raw_type': t}
    ctx.purity['bad'] = []
    try:
        with np.errstate(all='ignore'):
            tf = TdmsFile.read(io.BytesIO(blob))
            ch = tf['g']['c']
            before = ch.raw_data.tobytes()
            a = ch.read_data(0, 4)
            b = ch[:]
            c = ch.read_data()
            d = ch.read_data(2, 3)
            w1 = ch.read_data(0, 3)
            w2 = ch.read_data(3, 3)
            if not (C.img_equal(C.image(w1), C.image(b[0:3])) and C.img_equal(C.image(w2), C.image(b[3:6]))):
                ctx.violation('same-length-windows-at-different-offsets-disagree/%s' % kind.split(':')[0], dict(info, w1=C.short(C.image(w1)), w2=C.short(C.image(w2)), full=C.short(C.image(b))))
            if ch.raw_data.tobytes() != before or not C.img_equal(C.image(ch.raw_data), C.expected_image(t, raw)):
                ctx.violation('raw-data-modified-by-scaling/eager/%s' % kind.split(':')[0], info)
            if not (C.img_equal(C.image(a), C.image(b[:4])) and C.img_equal(C.image(b), C.image(c)) and C.img_equal(C.image(d), C.image(b[2:5]))):
                ctx.violation('repeated-scaled-reads-disagree/eager/%s' % kind.split(':')[0],
                              dict(info, first_window=C.short(C.image(a)), full=C.short(C.image(b)), again=C.short(C.image(c))))
            with TdmsFile.open(io.BytesIO(blob)) as lf:
                lch = lf['g']['c']
                parts = [x[:] for x in lch.data_chunks()]
                parts2 = [x[:] for x in lch.data_chunks()]
                e = lch[:]
                if not C.img_equal(C.image(e), C.image(b)) or not C.img_equal(C.image(np.concatenate(parts)), C.image(b)) or \
                        not C.img_equal(C.image(np.concatenate(parts2)), C.image(b)):
                    ctx.violation('repeated-scaled-reads-disagree/lazy/%s' % kind.split(':')[0], info)
                # the same chunk object scaled twice
                for x in lch.data_chunks():
                    if not C.img_equal(C.image(x[:]), C.image(x[:])):
                        ctx.violation('chunk-scaled-twice-differs/%s' % kind.split(':')[0], info)
                    break
    except Exception as ex:
        if not ctx.purity['bad']:
            ctx.violation('purity/raises/%s/%s' % (util.exc_key(ex), kind.split(':')[0]), dict(info, exc=util.exc_detail(ex)))
    for what, det in ctx.purity['bad']:
        ctx.violation('raw-data-modified-by-scaling/%s/%s' % (what, kind.split(':')[0]), dict(info, detail=det))


def count_variants_case(case, ctx):
    """The same NI_Scale[i] definitions with different NI_Number_Of_Scales, read one after another in one process:
    the declared number of scales decides which scale is the output."""
    from nptdms import TdmsFile
    rng = random.Random('c13c/%d' % case['s'])
    graph = SG.gen_graph(rng, depth=rng.randint(2, 4), kinds=['Linear', 'Polynomial', 'Linear', 'Add', 'Subtract'], permute=False)
    t = rng.choice(['i16', 'i32', 'f64', 'u8'])
    dt = M.TYPES[t][1]
    raw_vals = np.array([rng.randrange(0, 50) for _ in range(6)]).astype(dt)
    order = list(range(1, len(graph) + 1))
    rng.shuffle(order)
    for k in order + order[:1]:
        props = [('NI_Number_Of_Scales', 'u32', k)] + [p_ for i, sc in enumerate(graph) for p_ in SG.scale_props(i, sc)]
        gname, cname = rng.choice(['g', "g/'x", 'a/b']), rng.choice(['c', 'Dev1/ai0', "it's", "x/'y", 'flow l/'])
        level = rng.choice(['channel', 'group', 'group'])
        segs = M.build_file(rng, [(gname, cname, t, 6, props if level == 'channel' else [])], nseg=1, nchunks=(1,),
                            group_props={gname: props} if level == 'group' else None, values_fn=lambda p, tt, n: raw_vals)
        ctx.evaluation()
        ctx.count('count_variant_reads')
        ctx.distinct(('count-variants', graph_sig(graph), k, level, cname))
        want = SG.evaluate(graph[:k], raw_vals)
        try:
            got = TdmsFile.read(io.BytesIO(M.encode_file(segs)[0]))[gname][cname][:]
        except Exception as ex:
            ctx.violation('count-variants/raises/%s' % util.exc_key(ex), {'graph': graph, 'count': k, 'exc': util.exc_detail(ex)})
            continue
        if not close_enough(got, want, graph[:k], raw_vals):
            ctx.violation('declared-number-of-scales-not-honoured-or-group-scaling-lost/%s' % level,
                          {'graph': graph, 'count': k, 'group': gname, 'channel': cname, 'got': C.short(C.image(got)), 'want': C.short(C.image(np.asarray(want)))})


def run_case(case, ctx):
    if case['fam'] == 'daqmx':
        return daqmx_case(case, ctx)
    if case['fam'] == 'count-variants':
        return count_variants_case(case, ctx)
    if case['fam'] == 'purity':
        return purity_case(case, ctx)
    from nptdms import TdmsFile
    rng = random.Random('c13/%d' % case['s'])
    t = rng.choice(M.NUMERIC_REAL + ['f32u', 'f64u'])
    dt = M.TYPES[t][1]
    chan_graph = SG.gen_graph(rng)
    group_graph = SG.gen_graph(rng) if rng.random() < 0.35 else None
    root_graph = SG.gen_graph(rng) if rng.random() < 0.35 else None
    level = rng.choice(['channel', 'channel', 'group', 'root'])
    with_count = rng.random() < 0.7
    status = rng.choice([None, None, 'unscaled', 'scaled'])
    if not with_count:
        ctx.count('no_count_property')
    cprops, gprops, rprops = [], {}, None
    if level == 'channel':
        cprops = SG.graph_props(chan_graph, with_count, status)
    else:
        if status is not None:
            cprops = [('NI_Scaling_Status', 'str', status)]
    if level == 'group' or (group_graph and level == 'channel'):
        gprops['g'] = SG.graph_props(group_graph or chan_graph, with_count)
    if level == 'root' or (root_graph and level in ('channel', 'group')):
        rprops = SG.graph_props(root_graph or chan_graph, with_count)
    # expected graph by precedence channel -> group -> file; status 'scaled' at a level disables that level
    expect = None
    order = []
    if level == 'channel':
        order.append((chan_graph, status))
    if 'g' in gprops:
        order.append((group_graph or chan_graph, None))
    if rprops is not None:
        order.append((root_graph or chan_graph, None))
    for gr, st in order:
        if st == 'scaled':
            continue
        expect = gr
        break
    if len(order) > 1:
        ctx.count('precedence_cases')
    if status == 'scaled':
        ctx.count('status_scaled_cases')
    ctx.count('level:' + level)
    n = rng.choice([1, 2, 3, 5])
    parents = rng.choice(['first', 'first', 'last', 'later'])      # where root/group objects are declared relative to the channel
    ctx.count('parents:' + parents)

    def vf(p, tt, k):
        if dt[0] == 'f':
            return np.array([rng.choice([0.0, 1.0, -1.5, 49.0, rng.uniform(-60, 60)]) for _ in range(k)], dtype=dt)
        lo, hi = (0, 100) if dt[0] == 'u' else (-100, 100)
        vals = [rng.randrange(lo, hi) for _ in range(k)]
        if rng.random() < 0.2 and k:
            ii = np.iinfo(dt)
            vals[0] = rng.choice([ii.min, ii.max])
        return np.array(vals, dtype=dt)
    segs = M.build_file(rng, [('g', 'c', t, n, cprops), ('g', 'other', 'i16', n, [])], nseg=rng.randint(1, 3), nchunks=(1, 2, 3),
                        endian=rng.choice(['<', '>']), values_fn=vf, root_props=rprops, group_props=gprops,
                        inter=(rng.random() < 0.3 and M.TYPES[t][2] is not None), parents=parents)
    blob = M.encode_file(segs)[0]
    exp = M.Expected(segs)
    raw = exp.flat("/'g'/'c'")
    ctx.evaluation()
    ctx.count('graphs')
    if expect is not None and (len(expect) >= 2 or level != 'channel'):
        ctx.distinct((graph_sig(expect), t, level))
    want = raw if expect is None else SG.evaluate(expect, raw)
    info = {'raw_type': t, 'level': level, 'status': status, 'with_count': with_count, 'graph': expect, 'raw': raw[:6].tolist(),
            'levels_defined': [('channel' if level == 'channel' else None), ('group' if 'g' in gprops else None), ('root' if rprops is not None else None)]}
    ctx.sample({'case': case, 'info': info}, limit=2)
    kinds = '+'.join(sorted({s['kind'] for s in expect})) if expect else 'unscaled'
    ctx.purity['bad'] = []
    try:
        eager = TdmsFile.read(io.BytesIO(blob))
        ch = eager['g']['c']
        raw_before = ch.raw_data.tobytes()
        got = ch[:]
        ctx.count('scaled_compared')
        if not close_enough(got, want, expect or [], raw):
            which = 'precedence-or-status' if (len(order) > 1 or status == 'scaled') and kinds != 'unscaled' and not close_enough(got, SG.evaluate(expect, raw) if expect else raw, expect or [], raw) else 'formula'
            ctx.violation('scaled-differs-from-dataflow-evaluation/%s' % kinds, dict(info, got=C.short(C.image(got)), want=C.short(C.image(np.asarray(want)))))
        if ch.raw_data.tobytes() != raw_before or not C.img_equal(C.image(ch.raw_data), C.expected_image(t, raw)):
            ctx.violation('raw-data-modified-by-scaling/eager', info)
        if not C.img_equal(C.image(ch.read_data(scaled=False)), C.expected_image(t, raw)):
            ctx.violation('unscaled-read-differs-from-raw', info)
        N_ = len(raw)
        with TdmsFile.open(io.BytesIO(blob)) as lazy:
            lch = lazy['g']['c']
            lg = lch[:]
            ctx.count('lazy_compared')
            if not C.img_equal(C.image(lg), C.image(got)):
                ctx.violation('lazy-scaled-differs-from-eager/%s' % kinds, dict(info, lazy=C.short(C.image(lg)), eager=C.short(C.image(got))))
            for (o, l) in [(0, 1), (1, 2), (N_ // 2, None), (N_ - 1, 5), (0, N_), (2, 0)]:
                for c_, tag in ((lch, 'lazy'), (ch, 'eager')):
                    w = c_.read_data(o, l)
                    ctx.count('windows_compared')
                    end = None if l is None else o + l
                    if not C.img_equal(C.image(w), C.image(got[o:end])):
                        ctx.violation('window-of-scaled-differs-from-scaled-window/%s' % tag, dict(info, offset=o, length=l, got=C.short(C.image(w)), want=C.short(C.image(got[o:end]))))
            chunk_objs = list(lch.data_chunks())
            parts = [c_[:] for c_ in chunk_objs]
            if parts and not C.img_equal(C.image(np.concatenate(parts)), C.image(got)):
                ctx.violation('chunked-scaling-differs', info)
            # a chunk answers the same when asked again (element access, then the whole chunk once more)
            for rep in (2, 3):
                again = [c_[:] for c_ in chunk_objs]
                if again and not C.img_equal(C.image(np.concatenate(again)), C.image(got)):
                    ctx.violation('chunk-asked-again-differs/%s' % kinds, dict(info, time=rep, endian=[s_.endian for s_ in segs][:1]))
                    break
            firsts = [c_[0] for c_ in chunk_objs if len(c_)]
            wantf, pos_ = [], 0
            for c_ in chunk_objs:
                if len(c_):
                    wantf.append(got[pos_])
                pos_ += len(c_)
            if firsts and not C.img_equal(C.image(np.asarray(firsts)), C.image(np.asarray(wantf))):
                ctx.violation('chunk-element-differs/%s' % kinds, dict(info, endian=[s_.endian for s_ in segs][:1]))
            # scaled values must not depend on what was looked up before: integer lookups, then windows and slices again
            for i in (sorted({0, N_ // 2, N_ - 1}) + [-1, -2 if N_ >= 2 else -1, -N_]) if N_ else []:
                v = lch[i]
                i = i % N_
                ctx.count('scaled_index_then_window')
                if not C.img_equal(C.image(np.asarray([v])), C.image(got[i:i + 1])):
                    ctx.violation('scaled-index-differs/%s' % kinds, dict(info, index=i, got=repr(v), want=repr(got[i])))
                for (o, l) in [(i, N_), (max(0, i - 1), 3), (i, 1)]:
                    w = lch.read_data(o, l)
                    if not C.img_equal(C.image(w), C.image(got[o:o + l])):
                        ctx.violation('window-after-index-differs-from-scaled-window', dict(info, index=i, offset=o, length=l, got=C.short(C.image(w)),
                                                                                             want=C.short(C.image(got[o:o + l]))))
                w = lch[i:]
                if not C.img_equal(C.image(w), C.image(got[i:])):
                    ctx.violation('slice-after-index-differs-from-scaled-slice', dict(info, index=i))
    except contracts.ContractBroken as ex:
        ctx.violation('contract/%s' % util.exc_key(ex), info)
    except Exception as ex:
        ctx.violation('raises/%s/%s' % (util.exc_key(ex), kinds), dict(info, exc=util.exc_detail(ex)))
    for what, det in ctx.purity['bad']:
        ctx.violation('raw-data-modified-by-scaling/%s' % what, dict(info, detail=det))


def daqmx_case(case, ctx):
    from nptdms import TdmsFile
    rng = random.Random('c13d/%d' % case['s'])
    f = D.gen_daqmx(rng, max_chans=3, max_segs=2)
    plans = {}
    for ch in f.chans:
        ids = sorted(s['id'] for s in ch['scalers'])
        if ch['raw'] and ids == list(range(len(ids))) and not f.digital:
            k = len(ids)
            graph = SG.gen_graph(rng, depth=rng.randint(1, 3), kinds=['Linear', 'Polynomial', 'Add', 'Subtract'], permute=False)
            # re-wire: 'raw data' inputs become DAQmx scaler ids, scale indices shift by k
            def shift(v):
                if v is None or v == SG.RAW:
                    return rng.randrange(k)
                return v + k
            g2 = []
            for s in graph:
                s = dict(s)
                for key in ('src', 'left', 'right'):
                    if key in s or (key == 'src' and s['kind'] not in ('Add', 'Subtract')):
                        s[key] = shift(s.get(key))
                g2.append(s)
            plans[ch['name']] = (k, g2)
            props = []
            if rng.random() < 0.6:
                props.append(('NI_Number_Of_Scales', 7, lambda e, k=k, g2=g2: struct.pack(e + 'I', k + len(g2))))
            else:
                ctx.count('daqmx_graphs_without_count')
            for i, s in enumerate(g2):
                for name, pt, val in SG.scale_props(k + i, s):
                    if pt == 'str':
                        props.append((name, 0x20, lambda e, val=val: enc_str(e, val)))
                    elif pt == 'f64':
                        props.append((name, 10, lambda e, val=val: struct.pack(e + 'd', val)))
                    else:
                        props.append((name, 7, lambda e, val=val: struct.pack(e + 'I', val)))
            f.props[f.path(ch)] = props
    if not plans:
        return
    blob = f.encode()[0]
    ctx.evaluation()
    ctx.count('daqmx_graphs', len(plans))
    ctx.purity['bad'] = []
    try:
        tf = TdmsFile.read(io.BytesIO(blob))
        for ch in f.chans:
            if ch['name'] not in plans:
                continue
            k, g2 = plans[ch['name']]
            scal = {s['id']: f.expected(ch, s) for s in ch['scalers']}
            # evaluator over a graph whose first k 'scales' are the DAQmx scalers
            full = [dict(kind='AdvancedAPI', src=SG.RAW)] * k + g2
            memo = {i: scal[i] for i in range(k)}
            want = SG.evaluate(full, None, len(full) - 1, memo)
            got = tf['G'][ch['name']][:]
            ctx.count('scaled_compared')
            ctx.distinct(('daqmx', graph_sig(g2), tuple(sorted(s['t'] for s in ch['scalers']))))
            ok = close_enough(got, want, full, None, {i: np.abs(scal[i].astype('f8')) for i in range(k)})
            if not ok:
                ctx.violation('daqmx-scaled-differs-from-dataflow-evaluation', {'graph': g2, 'chan': ch, 'got': C.short(C.image(got)), 'want': C.short(C.image(np.asarray(want)))})
    except Exception as ex:
        ctx.violation('daqmx-raises/%s' % util.exc_key(ex), {'exc': util.exc_detail(ex), 'file': f.describe(), 'plans': {k: v[1] for k, v in plans.items()}})
    for what, det in ctx.purity['bad']:
        ctx.violation('raw-data-modified-by-scaling/%s' % what, {'detail': det, 'daqmx': True})
