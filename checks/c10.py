"""C10 - defragmenting a file preserves its content."""
import io
import os
import random
import numpy as np

from vlib import model as M, compare as C, util, scalegen as SG, refparse as RP

ID = 'C10'
LEVEL = 'exploration'
LEVEL_TEXT = ('Generated non-DAQmx source files (fragmented over many segments; empty, property-only and untyped channels; all 17 types incl. '
              'strings, timestamps, complex; NI_Scale graphs on channel/group/root) are passed to the real TdmsWriter.defragment with the '
              'destination as path or stream and the index file off/on; source and destination are then both read with '
              'raw_timestamps=True and compared: groups/channels, property values (timestamps raw), lengths, bit-identical raw values, '
              'data type of non-empty channels, and scaled data. The destination (and its index) is additionally parsed by the strict '
              'independent parser.')
LEVEL_NOTE = ('Type equality identifies the two ...WithUnit float types with their plain counterparts (the writer API cannot express them). '
              'Property equality is by value (the writer re-derives the TDMS integer width from the magnitude).')
TECHNIQUE = 'differential monitor source vs. defragmented copy through the real reader, plus independent strict parse of the copy'
RULE = ('sources from vlib.model.gen_file / build_file with scale graphs; non-trivial = source where some channel has data in >=2 segments, or '
        'contains an empty/untyped channel; distinct = per-segment signatures')
ASSUMPTIONS = ['group and channel order of the copy is compared too (defragment writes them in source order)']
REQUIRED = ['dest:in-place', 'short_read_sources', 'copy_props_compared_with_model', 'huge_sources', 'copy_compared_with_model', 'defragment_calls', 'channels_compared', 'props_compared', 'scaled_compared', 'dest:path', 'dest:stream', 'index:on', 'empty_or_untyped_channels',
            'copies_strict_parsed']
N = {'quick': 2400, 'thorough': 600000}


def gen_cases(tier, seed):
    for i in range(2 if tier == 'quick' else 12):
        yield {'s': seed * 1000003 + i, 'dest': 'stream' if i % 2 == 0 else 'path', 'index': i % 4 == 1, 'fam': 'huge'}
    for i in range(N[tier]):
        yield {'s': seed * 1000003 + i, 'dest': 'path' if i % 2 else 'stream', 'index': (i // 2) % 2 == 1, 'fam': 'scaled' if i % 4 == 3 else 'model'}
    for i in range(N[tier] // 8):
        yield {'s': seed * 1000003 + i, 'dest': 'in-place', 'index': i % 2 == 1, 'fam': 'model'}
    for i in range(max(2, N[tier] // 200)):
        yield {'s': seed * 1000003 + i, 'dest': 'stream', 'index': False, 'fam': 'huge', 'source': 'short-read-stream'}


def shard_setup(ctx):
    ctx.tmp = util.TempDir('c10')
    ctx.tmpdir = ctx.tmp.__enter__()


def shard_teardown(ctx):
    ctx.tmp.__exit__()


def build(case):
    rng = random.Random('c10/%d' % case['s'])
    if case['fam'] == 'huge':
        # raw data sizes around the block sizes a chunked writer might use: > 16 MiB, exactly 1 MiB, 1 MiB + 1 value
        t = rng.choice(['f64', 'i32', 'i16'])
        size = M.TYPES[t][2]
        big = (2 ** 24) // size + rng.choice([1, 12345, 100000])
        chans = [('g', 'big', t, big, []), ('g', 'mib', 'f64', 2 ** 17, []), ('g', 'mib1', 'i32', 2 ** 18 + 1, []), ('g', 'small', 'u8', 3, []),
                 ('g', 'stamps', 'ts', 2 ** 16 + rng.choice([1, 5000]), [])]

        def vfh(p, tt, n):
            if tt == 'ts':
                return [(3600000000 + i, (i * 2654435761) % 2 ** 64) for i in range(n)]
            dt = M.TYPES[tt][1]
            return (np.arange(n, dtype='i8') % 251).astype(dt)
        segs = M.build_file(rng, chans, nseg=1, nchunks=(1,), values_fn=vfh)
        return segs, rng
    if case['fam'] == 'model':
        segs = M.gen_file(rng, max_segs=8, max_chans=5, p_props=0.5, p_nodata=0.2)
    else:
        chans = []
        root_props, group_props = None, {}
        for i in range(rng.randint(1, 3)):
            t = rng.choice(M.NUMERIC_REAL)
            sc = SG.gen_graph(rng)
            where = rng.choice(['channel', 'channel', 'group', 'root'])
            props = SG.graph_props(sc)
            if where == 'channel':
                chans.append(('g', 'c%d' % i, t, rng.choice([0, 1, 3]), props))
            elif where == 'group':
                chans.append(('g', 'c%d' % i, t, rng.choice([1, 3]), []))
                group_props['g'] = props
            else:
                chans.append(('g', 'c%d' % i, t, rng.choice([1, 3]), []))
                root_props = props

        def vf(p, t, n):
            return np.array([rng.randrange(0, 50) for _ in range(n)]).astype(M.TYPES[t][1])
        segs = M.build_file(rng, chans, nseg=rng.randint(1, 5), nchunks=(1, 2), endian=rng.choice(['<', '>']), values_fn=vf,
                            root_props=root_props, group_props=group_props)
    return segs, rng


def prop_val(v):
    if hasattr(v, 'seconds') and hasattr(v, 'second_fractions'):
        return ('ts', int(v.seconds), int(v.second_fractions))
    if isinstance(v, (bool, np.bool_)):
        return ('bool', bool(v))
    if isinstance(v, (int, np.integer)):
        return ('int', int(v))
    if isinstance(v, (float, np.floating)):
        return ('float', 'nan' if v != v else repr(float(v)))
    return (type(v).__name__, v)


def props_by_value(props):
    return [(k, prop_val(v)) for k, v in props.items()]


def norm_type(name):
    return {'SingleFloatWithUnit': 'SingleFloat', 'DoubleFloatWithUnit': 'DoubleFloat'}.get(name, name)


def run_case(case, ctx):
    from nptdms import TdmsFile, TdmsWriter
    segs, rng = build(case)
    blob = M.encode_file(segs)[0]
    ctx.evaluation()
    desc = [s.describe() for s in segs][:5]
    exp = M.Expected(segs)
    multi = any(sum(1 for c in exp.seg_counts if c.get(p, 0) > 0) >= 2 for p in exp.channels())
    degenerate = any(exp.length(p) == 0 for p in exp.channels())
    if multi or degenerate:
        ctx.distinct(tuple(s.signature() for s in segs))
    if degenerate:
        ctx.count('empty_or_untyped_channels')
    if case['fam'] == 'huge':
        desc = [{'huge': [(p, ix) for p, ix in segs[0].data_objects()]}]
        ctx.count('huge_sources')
    ctx.sample({'case': case, 'segments': desc[:2]}, limit=2)
    src_path = os.path.join(ctx.tmpdir, 'src.tdms')
    dst_path = os.path.join(ctx.tmpdir, 'dst.tdms')
    for p in (dst_path, dst_path + '_index'):
        if os.path.exists(p):
            os.remove(p)
    util.write_file(src_path, blob)
    ctx.count('dest:' + case['dest'])
    if case['index']:
        ctx.count('index:on')
    dst_stream = istream = None
    try:
        ctx.count('defragment_calls')
        if case['dest'] in ('path', 'in-place'):
            if case['dest'] == 'in-place':
                dst_path = src_path          # defragment a file onto itself
                if os.path.exists(src_path + '_index'):
                    os.remove(src_path + '_index')
            TdmsWriter.defragment(src_path, dst_path, index_file=case['index'])
            with open(dst_path, 'rb') as f:
                out = f.read()
            idx = None
            if case['index']:
                with open(dst_path + '_index', 'rb') as f:
                    idx = f.read()
            if case['dest'] == 'in-place':
                os.remove(src_path)
                if os.path.exists(src_path + '_index'):
                    os.remove(src_path + '_index')
        else:
            dst_stream = io.BytesIO()
            istream = io.BytesIO() if case['index'] else False
            source_ = io.BytesIO(blob)
            if case.get('source') == 'short-read-stream':
                from checks.c03 import ShortReadStream
                source_ = ShortReadStream(blob, 65536)      # an unbuffered stream that hands out at most 64 KiB per call
                ctx.count('short_read_sources')
            TdmsWriter.defragment(source_, dst_stream, index_file=istream)
            out = dst_stream.getvalue()
            idx = istream.getvalue() if case['index'] else None
    except Exception as ex:
        shapes = []
        for p in exp.channels():
            t = exp.types.get(p)
            if exp.length(p) == 0:
                shapes.append('empty-%s' % ('untyped' if t is None else ('str' if t == 'str' else ('ts' if t == 'ts' else 'numeric'))))
        ctx.violation('defragment-raises/%s/%s' % (util.exc_key(ex), 'source-has-empty-untyped-str-or-ts-channel' if any(x in ('empty-untyped', 'empty-str', 'empty-ts') for x in shapes) else 'other-source'),
                      {'exc': util.exc_detail(ex), 'segments': desc})
        return
    try:
        a = TdmsFile.read(io.BytesIO(blob), raw_timestamps=True)
        b = TdmsFile.read(io.BytesIO(out), raw_timestamps=True)
    except Exception as ex:
        ctx.violation('read-of-copy-raises/%s' % util.exc_key(ex), {'exc': util.exc_detail(ex), 'segments': desc})
        return
    # ---- properties of the copy against the model of the source (the source and the copy are read by the same reader,
    #      so a reader-side misreading of the source would otherwise be invisible)
    def props_vs_model(path, observed):
        want = exp.props.get(path, {})
        ctx.count('copy_props_compared_with_model', len(want))
        if set(observed.keys()) != set(want.keys()):
            ctx.violation('copy-properties-differ-from-model/names', {'path': path, 'copy': sorted(observed.keys()), 'model': sorted(want.keys()), 'segments': desc})
            return
        for name, (pt, val) in want.items():
            if not C.prop_matches(pt, val, observed[name]):
                ctx.violation('copy-properties-differ-from-model/value/%s' % pt, {'path': path, 'name': name, 'copy': repr(observed[name])[:80], 'model': repr(val)[:80], 'segments': desc})
    props_vs_model('/', b.properties)
    for gb_ in b.groups():
        props_vs_model(gb_.path, gb_.properties)
        for cb_ in gb_.channels():
            props_vs_model(cb_.path, cb_.properties)
    if [g.name for g in a.groups()] != [g.name for g in b.groups()]:
        kind = 'set' if set(g.name for g in a.groups()) != set(g.name for g in b.groups()) else 'order'
        ctx.violation('groups-differ/%s' % kind, {'src': [g.name for g in a.groups()], 'dst': [g.name for g in b.groups()], 'segments': desc})
    ctx.count('props_compared')
    if props_by_value(a.properties) != props_by_value(b.properties):
        ctx.violation('root-properties-differ', {'src': props_by_value(a.properties)[:6], 'dst': props_by_value(b.properties)[:6]})
    for ga in a.groups():
        if ga.name not in b:
            continue
        gb = b[ga.name]
        ctx.count('props_compared')
        if props_by_value(ga.properties) != props_by_value(gb.properties):
            ctx.violation('group-properties-differ', {'group': ga.name, 'src': props_by_value(ga.properties)[:6], 'dst': props_by_value(gb.properties)[:6]})
        if [c.name for c in ga.channels()] != [c.name for c in gb.channels()]:
            kind = 'set' if set(c.name for c in ga.channels()) != set(c.name for c in gb.channels()) else 'order'
            ctx.violation('channels-differ/%s' % kind, {'group': ga.name, 'src': [c.name for c in ga.channels()], 'dst': [c.name for c in gb.channels()]})
        for ca in ga.channels():
            if ca.name not in gb:
                continue
            cb = gb[ca.name]
            ctx.count('channels_compared')
            ctx.count('props_compared')
            info = {'path': ca.path, 'segments': desc}
            if props_by_value(ca.properties) != props_by_value(cb.properties):
                ctx.violation('channel-properties-differ', dict(info, src=props_by_value(ca.properties)[:6], dst=props_by_value(cb.properties)[:6]))
            if len(ca) != len(cb):
                ctx.violation('length-differs', dict(info, src=len(ca), dst=len(cb)))
                continue
            ra, rb = ca.read_data(scaled=False), cb.read_data(scaled=False)
            t_model = exp.types.get(ca.path)
            if t_model is not None and len(ca):
                ctx.count('copy_compared_with_model')
                if not C.img_equal(C.image(rb), C.expected_image(t_model, exp.flat(ca.path))):
                    ctx.violation('copy-differs-from-model/%s' % t_model, dict(info, copy=C.short(C.image(rb)), model=C.short(C.expected_image(t_model, exp.flat(ca.path)))))
            if not C.img_equal(C.image(ra), C.image(rb)) and len(ca):
                ctx.violation('raw-values-differ/%s' % (ca.data_type.__name__ if ca.data_type else 'untyped'), dict(info, src=C.short(C.image(ra)), dst=C.short(C.image(rb))))
            if len(ca) > 0:
                ta = norm_type(ca.data_type.__name__)
                tb = None if cb.data_type is None else norm_type(cb.data_type.__name__)
                if ta != tb:
                    ctx.violation('type-differs/%s' % ta, dict(info, src=ta, dst=tb))
            try:
                sa = ca[:]
            except Exception:
                sa = None
            if sa is not None:
                ctx.count('scaled_compared')
                try:
                    sb = cb[:]
                    if not C.img_equal(C.image(sa), C.image(sb)) and len(ca):
                        ctx.violation('scaled-data-differs', dict(info, src=C.short(C.image(sa)), dst=C.short(C.image(sb))))
                except Exception as ex:
                    ctx.violation('scaled-read-of-copy-raises/%s' % util.exc_key(ex), info)
    # bonus observation: the copy must be structurally valid (C08's parser)
    segs2, findings = RP.parse(out, strict=True)
    ctx.count('copies_strict_parsed')
    for kind, det in findings:
        ctx.violation('copy-strict-parse/%s' % kind, {'finding': det, 'segments': desc})
    if idx is not None:
        want = b''.join(b'TDSh' + out[s['start'] + 4:s['start'] + 28 + s['raw_offset']] for s in segs2)
        if idx != want:
            ctx.violation('copy-index-differs', {'index_len': len(idx), 'expected_len': len(want)})
    if dst_stream is not None and dst_stream.closed:
        ctx.violation('destination-stream-closed', {})
