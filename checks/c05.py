"""C05 - reads from an open file are independent of earlier reads (history monitor)."""
import io
import random
import numpy as np

from vlib import model as M, compare as C, contracts, util
from vlib.iotrace import TraceIO
from checks import c11 as DQ
from checks.c04 import scalar_image

ID = 'C05'
LEVEL = 'exploration'
LEVEL_TEXT = ('History monitor: thousands of short random single-threaded operation sequences (integer index, slice, windowed read, '
              'creation of channel-level and file-level chunk generators, next() on any live generator) are executed on one lazily '
              'opened file; every result is recorded and checked offline against the result of the same request on a freshly opened '
              'file, and at the end every generator is drained and must have delivered its complete fresh sequence. The stream is a '
              'recording stream so the file position before each operation is part of the witness. The (previous op x next op) matrix '
              'must be fully covered.')
LEVEL_NOTE = 'Fresh results come from separate TdmsFile.open instances of the same bytes. Single-threaded by the statement.'
TECHNIQUE = 'offline history checker over recorded operation sequences against fresh-file results'
RULE = ('files: multi-chunk multi-segment model files (contiguous, interleaved, strings, timestamps) and DAQmx files; histories of 20-60 '
        'ops; non-trivial = history with >=2 live generators interleaved with >=1 random read; distinct = (file signature, op-kind sequence)')
ASSUMPTIONS = ['a generator created at step k must deliver the same chunk sequence as one created on a fresh file']
REQUIRED = ['stream_reuse_reads', 'histories_with_memmap_dir', 'kept_results_rechecked', 'scribbled_results', 'family:staggered', 'family:very-long', 'chunks_inspected_after_advance', 'family:same-total', 'family:short-middle', 'family:scaled', 'family:long', 'ops', 'gen_next_checked', 'generators_drained', 'file_generators', 'channel_generators', 'family:model', 'family:daqmx']
N = {'quick': 8000, 'thorough': 400000}
KINDS = ['index', 'slice', 'read', 'new_gen', 'next_chan', 'next_file', 'read_unscaled']       # 'scribble' is not required in the pair matrix


def gen_cases(tier, seed):
    for i in range(N[tier]):
        yield {'fam': 'daqmx' if i % 5 == 4 else 'model', 's': seed * 1000003 + i}
    for i in range(N[tier] // 100):
        yield {'fam': 'long', 's': seed * 1000003 + i}
    for i in range(N[tier] // 10):
        yield {'fam': 'short-middle', 's': seed * 1000003 + i}
    for i in range(N[tier] // 10):
        yield {'fam': 'scaled', 's': seed * 1000003 + i}
    for i in range(N[tier] // 10):
        yield {'fam': 'same-total', 's': seed * 1000003 + i}
    for i in range(N[tier] // 10):
        yield {'fam': 'staggered', 's': seed * 1000003 + i}
    for i in range(max(16, N[tier] // 500)):
        yield {'fam': 'very-long', 's': seed * 1000003 + i}
    for i in range(N[tier] // 20):
        yield {'fam': 'stream-reuse', 's': seed * 1000003 + i}


def shard_setup(ctx):
    contracts.install()
    ctx.tmp = util.TempDir('c05')
    ctx.tmpdir = ctx.tmp.__enter__()


def shard_teardown(ctx):
    contracts.drain(ctx)
    ctx.tmp.__exit__()


def build(case):
    rng = random.Random('c05/%s/%d' % (case['fam'], case['s']))
    if case['fam'] == 'model':
        while True:
            segs = M.gen_file(rng, max_segs=5, max_chans=4, lens=(1, 2, 3, 5), chunks=(1, 2, 3), p_props=0.0, extra_objects=False,
                              p_zero_chunks=0.05)
            if sum(len(s.chunks) for s in segs) >= 2:
                break
        return M.encode_file(segs)[0], tuple(s.signature() for s in segs), [s.describe() for s in segs][:4], rng
    if case['fam'] == 'short-middle':
        segs, blob = short_middle_file(rng)
        return blob, ('short-middle',) + tuple(s.signature() for s in segs), {'segments': [s.describe() for s in segs][:3]}, rng
    if case['fam'] == 'same-total':
        segs = same_total_file(rng)
        return M.encode_file(segs)[0], ('same-total',) + tuple(s.signature() for s in segs), [s.describe() for s in segs][:3], rng
    if case['fam'] == 'scaled':
        segs = scaled_file(rng)
        return M.encode_file(segs)[0], ('scaled',) + tuple(s.signature() for s in segs), [s.describe() for s in segs][:2], rng
    if case['fam'] == 'staggered':
        segs = staggered_file(rng)
        return M.encode_file(segs)[0], ('staggered',) + tuple(s.signature() for s in segs), [s.describe() for s in segs][:4], rng
    if case['fam'] in ('long', 'very-long'):
        segs = long_file(rng) if case['fam'] == 'long' else very_long_file(rng)
        return M.encode_file(segs)[0], ('long', len(segs)) + tuple(s.signature() for s in segs[-3:]), {'segments': len(segs), 'last': segs[-1].describe()}, rng
    f, _ = DQ.build({'s': case['s']})
    return f.encode()[0], ('daqmx',) + f.signature(), f.describe(), rng


def short_middle_file(rng):
    """A readable but irregular shape: a segment in the middle of the file whose raw data is shorter than a whole number
    of chunks (its final chunk is short), followed by further segments holding more data of the same channels.
    There is no model for what such a file 'means'; the checks using it compare with the eager / fresh read."""
    import struct
    while True:
        t = rng.choice(['i32', 'f64', 'u8', 'i16'])
        nch = rng.randint(1, 2)
        n0 = rng.choice([3, 4, 5, 7])
        chans = [('g', 'c%d' % i, t, n0, []) for i in range(nch)]
        segs = M.build_file(rng, chans, nseg=rng.randint(3, 5), nchunks=(2, 3), continuation=rng.choice(['same', 'none', 'full']),
                            inter=False)      # an interleaved segment with a short final chunk in mid-file is not readable at all
                                              # (TdmsFile.read raises ValueError: the reader runs into the next lead-in) - outside the domain
        blob, _, lay = M.encode_file(segs)
        k = rng.randrange(0, len(segs) - 1)          # never the last segment
        l = lay.segs[k]
        size = M.TYPES[t][2]
        row = size * (nch if segs[k].interleaved else 1)
        drop_rows = rng.randint(1, n0 - 1)
        if segs[k].interleaved:
            drop = drop_rows * row
        else:
            drop = drop_rows * size                     # the last channel of the last chunk loses values
        if l['end'] - l['data_start'] <= drop:
            continue
        new_end = l['end'] - drop
        b = bytearray(blob[:new_end] + blob[l['end']:])
        e = segs[k].endian
        nxt = struct.unpack(e + 'Q', bytes(b[l['start'] + 12:l['start'] + 20]))[0]
        b[l['start'] + 12:l['start'] + 20] = struct.pack(e + 'Q', nxt - drop)
        return segs, bytes(b)


def same_total_file(rng):
    """Two or three channels that have data in the same segments and the same total length, but whose per-segment
    lengths are permutations of each other (the cumulative offset arrays agree only in length and final total)."""
    nseg = rng.randint(2, 6)
    base = [rng.choice([1, 2, 3, 4]) for _ in range(nseg)]
    if len(set(base)) == 1:
        base[0] += 1
    nch = rng.randint(2, 3)
    perms = [base[:]]
    while len(perms) < nch:
        p = base[:]
        rng.shuffle(p)
        if p not in perms or rng.random() < 0.1:
            perms.append(p)
    t = rng.choice(['i32', 'f64', 'u8'])
    paths = [M.qpath('g', 'c%d' % i) for i in range(nch)]
    segs = []
    for si in range(nseg):
        s = M.Seg()
        s.endian = '<'
        s.new_obj_list = (si == 0)
        s.listing = [(paths[i], 'full', (t, perms[i][si], None)) for i in range(nch)]
        s.active = [(paths[i], True, (t, perms[i][si], None)) for i in range(nch)]
        for c in range(1):
            s.chunks.append({p: M.rand_values(rng, ix[0], ix[1]) for p, ix in s.data_objects()})
        segs.append(s)
    return segs


def scaled_file(rng):
    """Multi-chunk file whose channels carry a Linear scale: the one-chunk cache then holds scaled values."""
    from vlib import scalegen as SG
    chans = []
    for i in range(rng.randint(1, 3)):
        t = rng.choice(['i16', 'i32', 'f32', 'u8'])
        sc = [dict(kind='Linear', slope=rng.choice([2.0, 0.5, -3.0]), intercept=rng.choice([1.0, 0.0, 10.0]), src=None)]
        chans.append(('g', 'c%d' % i, t, rng.choice([2, 3, 5]), SG.graph_props(sc)))

    def vf(p, t, n):
        return np.array([rng.randrange(0, 100) for _ in range(n)]).astype(M.TYPES[t][1])
    same_n = len({c_[3] for c_ in chans}) == 1
    return M.build_file(rng, chans, nseg=rng.randint(2, 4), nchunks=(2, 3), values_fn=vf, inter=same_n and rng.random() < 0.5)


def long_file(rng):
    """100-300 segments; 2-3 channels whose per-segment value counts agree for a long prefix and diverge later
    (the lazily built per-channel offset index is de-duplicated between channels of the same shape)."""
    nch = rng.randint(2, 3)
    nseg = rng.randint(101, 300)
    div = rng.randint(max(2, nseg - 150), nseg - 1) if rng.random() < 0.8 else rng.randint(1, nseg - 1)
    paths = [M.qpath('g', 'c%d' % i) for i in range(nch)]
    t = rng.choice(['i32', 'u8', 'f64'])
    n0 = rng.choice([1, 2])
    segs = []
    for si in range(nseg):
        s = M.Seg()
        s.endian = '<'
        if si == 0:
            s.listing = [(p, 'full', (t, n0, None)) for p in paths]
            s.active = [(p, True, (t, n0, None)) for p in paths]
        elif si == div:
            # one channel changes its chunk length from here on
            k = rng.randrange(nch)
            s.new_obj_list = False
            s.listing = [(paths[k], 'full', (t, n0 + 1, None))]
            s.active = [(p, True, (t, n0 + 1, None)) if p == paths[k] else e for (p, hd, ix), e in zip(segs[-1].active, segs[-1].active)]
        else:
            s.has_meta, s.new_obj_list = False, False
            s.active = list(segs[-1].active)
        for c in range(rng.choice([1, 1, 2])):
            s.chunks.append({p: M.rand_values(rng, ix[0], ix[1]) for p, ix in s.data_objects()})
        segs.append(s)
    return segs


def very_long_file(rng):
    """More than 1000 segments; two or three channels whose per-segment counts differ only at single segments in the middle,
    so that their cumulative offset arrays agree at both ends (and in their printed, abbreviated form)."""
    nch = rng.randint(2, 3)
    nseg = rng.randint(1005, 1200)
    paths = [M.qpath('g', 'c%d' % i) for i in range(nch)]
    t = rng.choice(['i32', 'u8', 'f64'])
    n0 = rng.choice([1, 2])
    bumps = {}
    lo, hi = nseg // 8, nseg - nseg // 8
    for k in range(nch):
        while True:
            a = rng.randint(lo, hi)
            if all(abs(a - b) >= 2 for b in bumps):
                bumps[a] = k
                break
    segs = []
    for si in range(nseg):
        s = M.Seg()
        s.endian = '<'
        prev = segs[-1].active if segs else None
        if si == 0:
            s.listing = [(p, 'full', (t, n0, None)) for p in paths]
            s.active = [(p, True, (t, n0, None)) for p in paths]
        elif si in bumps or si - 1 in bumps:
            k = bumps.get(si, bumps.get(si - 1))
            cnt = n0 + 1 if si in bumps else n0
            s.new_obj_list = False
            s.listing = [(paths[k], 'full', (t, cnt, None))]
            s.active = [(q, True, (t, cnt, None)) if q == paths[k] else e for (q, hd, ix), e in zip(prev, prev)]
        else:
            s.has_meta, s.new_obj_list = False, False
            s.active = list(prev)
        s.chunks.append({q: M.rand_values(rng, ix[0], ix[1]) for q, ix in s.data_objects()})
        segs.append(s)
    return segs


def staggered_file(rng):
    """Two to four channels with the same sequence of per-segment value counts, each starting in a different segment:
    their cumulative offset arrays are equal while their first segments differ."""
    nch = rng.randint(2, 4)
    run = rng.randint(2, 5)
    counts = [rng.choice([1, 2, 3, 4]) for _ in range(run)]
    starts = [0] + sorted(rng.randint(1, 3) for _ in range(nch - 1))
    if rng.random() < 0.5:
        rng.shuffle(starts)
    types = [rng.choice(['i32', 'f64', 'u8', 'i16']) for _ in range(nch)]
    paths = [M.qpath('g', 'c%d' % i) for i in range(nch)]
    nseg = max(starts) + run
    segs = []
    for si in range(nseg):
        s = M.Seg()
        s.endian = '<'
        s.new_obj_list = True
        act = [(paths[i], 'full', (types[i], counts[si - starts[i]], None)) for i in range(nch) if 0 <= si - starts[i] < run]
        s.listing = act
        s.active = [(q, True, ix) for q, hd, ix in act]
        s.chunks.append({q: M.rand_values(rng, ix[0], ix[1]) for q, ix in s.data_objects()})
        segs.append(s)
    return segs


def chunk_images(chunk, chans):
    out = {}
    for (g, c) in chans:
        cc = chunk[g][c]
        out[(g, c)] = (cc.offset, C.image(cc[:]))
    return out


def stream_reuse_case(case, ctx):
    """One stream object rewritten with another file of the same layout and opened again: what is read depends on the
    bytes in the stream now, not on what the same stream object held before."""
    from nptdms import TdmsFile
    rng = random.Random('c05sr/%d' % case['s'])
    nch = rng.randint(1, 3)
    inter = rng.random() < 0.6
    n = rng.choice([2, 3, 5])
    chans = [('g', 'c%d' % i, rng.choice(['i32', 'f64', 'i16', 'u8']), n if inter else rng.choice([2, 3, 5]), []) for i in range(nch)]
    nseg, nchk, e = rng.randint(1, 3), rng.randint(1, 3), rng.choice('<>')
    files = []
    for k in range(2):
        vr = random.Random('c05srv/%d/%d' % (case['s'], k))
        segs = M.build_file(random.Random('c05srs/%d' % case['s']), chans, nseg=nseg, nchunks=(nchk,), endian=e, inter=inter,
                            values_fn=lambda p, t, kk, vr=vr: np.array([vr.randrange(0, 120) for _ in range(kk)]).astype(M.TYPES[t][1]))
        files.append((M.encode_file(segs)[0], M.Expected(segs)))
    ctx.evaluation()
    ctx.count('family:stream-reuse')
    ctx.distinct(('stream-reuse', nch, inter, nseg, nchk, e, n))
    if len(files[0][0]) != len(files[1][0]):
        return
    stream = io.BytesIO(files[0][0])
    for k, (blob, exp) in enumerate(files):
        if k:
            stream.seek(0)
            stream.truncate()
            stream.write(blob)
            stream.seek(0)
        for mode in ('lazy', 'eager'):
            stream.seek(0)
            tf = (TdmsFile.open if mode == 'lazy' else TdmsFile.read)(stream)
            try:
                for p in exp.channels():
                    g_, c_ = M.split_path(p)
                    ch = tf[g_][c_]
                    want = C.expected_image(exp.types[p], exp.flat(p))
                    for what, got in (('[:]', ch[:]), ('index', np.array([ch[i] for i in range(len(ch))]) if mode == 'lazy' else ch[:]),
                                      ('chunks', np.concatenate([x[:] for x in ch.data_chunks()]) if mode == 'lazy' and len(ch) else ch[:])):
                        ctx.count('stream_reuse_reads')
                        if not C.img_equal(C.image(got), want, loose_kind=True):
                            ctx.violation('stream-reuse/%s/%s/%s' % ('first-use' if k == 0 else 'after-rewrite', mode, what),
                                          {'path': p, 'got': C.short(C.image(got)), 'want': C.short(want), 'interleaved': inter})
            finally:
                tf.close()


def run_case(case, ctx):
    from nptdms import TdmsFile
    if case['fam'] == 'stream-reuse':
        return stream_reuse_case(case, ctx)
    blob, sig, desc, rng = build(case)
    ctx.evaluation()
    ctx.count('family:' + case['fam'])
    # ---- fresh results (each from its own freshly opened file)
    fresh = {}
    try:
        with TdmsFile.open(io.BytesIO(blob)) as tf:
            chans = []
            for g in tf.groups():
                for ch in g.channels():
                    try:
                        fresh[(g.name, ch.name)] = {'R': ch[:]}
                        U = ch.read_data(scaled=False)
                        fresh[(g.name, ch.name)]['U'] = {k_: C.image(v_) for k_, v_ in U.items()} if isinstance(U, dict) else C.image(U)
                        chans.append((g.name, ch.name))
                    except ValueError:
                        pass      # DAQmx raw channel without scaling information: not readable as scaled data
        for key in chans:
            with TdmsFile.open(io.BytesIO(blob)) as tf:
                fresh[key]['chunks'] = [(c.offset, C.image(c[:])) for c in tf[key[0]][key[1]].data_chunks()]
                fresh[key]['Rimg'] = C.image(fresh[key]['R'])
        with TdmsFile.open(io.BytesIO(blob)) as tf:
            fresh_file = [chunk_images(chunk, chans) for chunk in tf.data_chunks()]
    except Exception as ex:
        ctx.violation('fresh-read-raises/%s' % util.exc_key(ex), {'exc': util.exc_detail(ex), 'file': desc})
        return
    if not chans:
        return
    # ---- the history
    stream = TraceIO(blob)
    use_memmap = case['s'] % 4 == 3 and case['fam'] in ('model', 'scaled', 'same-total', 'staggered')
    if use_memmap:
        ctx.count('histories_with_memmap_dir')       # results are memory maps: an earlier one must not be recycled for a later read
    tf = TdmsFile.open(stream, memmap_dir=ctx.tmpdir) if use_memmap else TdmsFile.open(stream)
    gens = []         # dicts: kind chan/file, key, it, delivered
    history = []
    nops = rng.randint(20, 60)
    prev = None
    live2 = False
    randread_between = False

    scribbles = []   # arrays returned by slice/read ops that the 'caller' may overwrite later
    kept = []        # (step, kind, array object, its image when it was returned): re-examined after the whole history

    def keep(kind, arr):
        if isinstance(arr, np.ndarray) and len(arr) and rng.random() < 0.3 and kind != 'read_unscaled':
            scribbles.append(arr)
        elif isinstance(arr, np.ndarray) and len(arr) and len(kept) < 80:
            kept.append((len(history), kind, arr, C.image(arr)))
        elif isinstance(arr, dict):
            for v_ in arr.values():
                keep(kind, v_)

    def record(kind, args, ok, detail=None):
        history.append((len(history), kind, args, stream.position(), ok))
        if not ok:
            ctx.violation('history/%s/%s' % (kind, detail['why']),
                          {'step': len(history) - 1, 'args': args, 'detail': {k: v for k, v in detail.items() if k != 'why'},
                           'history': history[-12:], 'file': desc})
    try:
        for step in range(nops):
            live = [g for g in gens if not g['done']]
            choices = ['index', 'slice', 'read', 'new_gen', 'read_unscaled']
            if scribbles:
                choices.append('scribble')
            if any(g['kind'] == 'chan' for g in live):
                choices += ['next_chan'] * 2
            if any(g['kind'] == 'file' for g in live):
                choices += ['next_file'] * 2
            kind = rng.choice(choices)
            if prev is not None:
                ctx.cell('%s>%s' % (prev, kind))
            prev = kind
            ctx.count('ops')
            key = rng.choice(chans)
            ch = tf[key[0]][key[1]]
            R, Rimg = fresh[key]['R'], fresh[key]['Rimg']
            n = len(R)
            if len(live) >= 2 and kind in ('index', 'slice', 'read', 'read_unscaled'):
                randread_between = True
            if kind == 'scribble':
                # the caller overwrites an array it was handed earlier: lazily read results are the caller's own copies,
                # so nothing the library returns afterwards may change
                arr = scribbles.pop(rng.randrange(len(scribbles)))
                try:
                    if arr.dtype.kind in 'iuf':
                        arr[...] = 0
                    elif arr.dtype.kind == 'b':
                        arr[...] = ~arr
                    ctx.count('scribbled_results')
                except (ValueError, TypeError):
                    pass          # read-only or structured: nothing to overwrite
                history.append((len(history), 'scribble', None, stream.position(), True))
                continue
            if kind == 'index':
                if n == 0:
                    continue
                i = rng.randrange(-n, n)
                got = ch[i]
                ok = scalar_image(got) == scalar_image(R[i])
                record(kind, (key, i), ok, {'why': 'wrong-value', 'got': repr(got), 'want': repr(R[i])})
            elif kind == 'slice':
                a, b, c = (rng.choice([None] + list(range(-n - 1, n + 2))), rng.choice([None] + list(range(-n - 1, n + 2))),
                           rng.choice([None, 1, 2, -1, -2]))
                got = ch[a:b:c]
                keep(kind, got)
                ok = C.img_equal(C.image(got), C.image_slice(Rimg, slice(a, b, c)))
                record(kind, (key, a, b, c), ok, {'why': 'wrong-values', 'got': C.short(C.image(got)), 'want': C.short(C.image_slice(Rimg, slice(a, b, c)))})
            elif kind == 'read':
                o, l = rng.randrange(0, n + 2), rng.choice([None, 0, 1, 2, rng.randrange(0, n + 2)])
                if rng.random() < 0.15:
                    o, l = 0, None             # the complete channel in one call
                got = ch.read_data(o, l)
                keep(kind, got)
                want = C.image_slice(Rimg, slice(o, None if l is None else o + l))
                record(kind, (key, o, l), C.img_equal(C.image(got), want), {'why': 'wrong-values', 'got': C.short(C.image(got)), 'want': C.short(want)})
            elif kind == 'read_unscaled':
                Uimg = fresh[key].get('U')
                if Uimg is None:
                    continue
                o, l = rng.randrange(0, n + 1), rng.choice([None, 0, 1, 2, 3])
                got = ch.read_data(o, l, scaled=False)
                keep(kind, got)
                sl_ = slice(o, None if l is None else o + l)
                if isinstance(Uimg, dict):
                    okd = isinstance(got, dict) and set(got) == set(Uimg) and all(C.img_equal(C.image(got[k_]), C.image_slice(Uimg[k_], sl_)) for k_ in Uimg)
                    record(kind, (key, o, l), okd, {'why': 'wrong-unscaled-scaler-values'})
                else:
                    want = C.image_slice(Uimg, sl_)
                    record(kind, (key, o, l), C.img_equal(C.image(got), want), {'why': 'wrong-unscaled-values', 'got': C.short(C.image(got)), 'want': C.short(want)})
            elif kind == 'new_gen':
                if rng.random() < 0.5:
                    gens.append({'kind': 'chan', 'key': key, 'it': ch.data_chunks(), 'delivered': 0, 'done': False, 'hold': rng.random() < 0.4})
                    ctx.count('channel_generators')
                else:
                    gens.append({'kind': 'file', 'key': None, 'it': tf.data_chunks(), 'delivered': 0, 'done': False, 'hold': rng.random() < 0.4})
                    ctx.count('file_generators')
                history.append((len(history), 'new_gen', gens[-1]['kind'], stream.position(), True))
            else:
                cands = [g for g in live if g['kind'] == ('chan' if kind == 'next_chan' else 'file')]
                g = rng.choice(cands)
                advance(ctx, g, fresh, fresh_file, chans, record, kind)
            if len([g for g in gens if not g['done']]) >= 2:
                live2 = True
        # ---- drain: every iterator must deliver its full sequence
        for g in gens:
            guard = 0
            while not g['done'] and guard < 10000:
                advance(ctx, g, fresh, fresh_file, chans, record, 'drain_' + g['kind'])
                guard += 1
            ctx.count('generators_drained')
        # ---- results handed out earlier still hold the values they held when they were returned
        for (st, kd, arr, im0) in kept:
            ctx.count('kept_results_rechecked')
            if not C.img_equal(C.image(arr), im0):
                ctx.violation('history/%s/earlier-result-changed-later' % kd, {'step': st, 'was': C.short(im0), 'now': C.short(C.image(arr)),
                                                                               'history': history[max(0, st - 2):st + 10], 'file': desc})
                break
    except contracts.ContractBroken as ex:
        ctx.violation('history/contract/%s' % util.exc_key(ex), {'history': history[-12:], 'file': desc})
    except Exception as ex:
        ctx.violation('history/raises/%s' % util.exc_key(ex),
                      {'exc': util.exc_detail(ex), 'history': history[-12:], 'file': desc})
    finally:
        tf.close()
    if live2 and randread_between:
        ctx.distinct((sig, tuple(h[1] for h in history)))
    ctx.sample({'case': case, 'history (step, op, args, file position, ok)': history[:25], 'file': desc}, limit=2)


def advance(ctx, g, fresh, fresh_file, chans, record, kind):
    """Advance one iterator by one step. Generators created with hold=True have each chunk inspected only after the
    iterator has moved on to the next chunk (or ended), the way list(f.data_chunks()) users see them."""
    j = g['delivered']
    seq = fresh[g['key']]['chunks'] if g['kind'] == 'chan' else fresh_file
    try:
        chunk = next(g['it'])
    except StopIteration:
        g['done'] = True
        ctx.count('gen_next_checked')
        if g.get('held') is not None:
            inspect(ctx, g, seq, chans, record, kind + '_held', *g.pop('held'))
        record(kind, (g['kind'], g['key'], j), j == len(seq), {'why': 'iterator-ended-early', 'delivered': j, 'expected_chunks': len(seq)})
        return
    ctx.count('gen_next_checked')
    g['delivered'] += 1
    if g.get('held') is not None:
        ctx.count('chunks_inspected_after_advance')
        inspect(ctx, g, seq, chans, record, kind + '_held', *g.pop('held'))
    if j >= len(seq):
        record(kind, (g['kind'], g['key'], j), False, {'why': 'iterator-delivered-extra-chunk', 'delivered': j + 1, 'expected_chunks': len(seq)})
        return
    if g.get('hold'):
        g['held'] = (j, chunk)
    else:
        inspect(ctx, g, seq, chans, record, kind, j, chunk)


def inspect(ctx, g, seq, chans, record, kind, j, chunk):
    if g['kind'] == 'chan':
        got = (chunk.offset, C.image(chunk[:]))
        again = C.image(chunk[:])               # a chunk object answers the same every time it is asked
        ok = got[0] == seq[j][0] and C.img_equal(got[1], seq[j][1]) and C.img_equal(again, seq[j][1])
        record(kind, (g['kind'], g['key'], j), ok, {'why': 'chunk-differs-from-fresh', 'got': (got[0], C.short(got[1])), 'want': (seq[j][0], C.short(seq[j][1]))})
    else:
        got = chunk_images(chunk, chans)
        again = chunk_images(chunk, chans)
        bad = [k for k in got if got[k][0] != seq[j][k][0] or not C.img_equal(got[k][1], seq[j][k][1]) or not C.img_equal(again[k][1], seq[j][k][1])]
        record(kind, (g['kind'], None, j), not bad, {'why': 'chunk-differs-from-fresh', 'channels': bad[:3],
                                                     'got': [(got[k][0], C.short(got[k][1])) for k in bad[:2]],
                                                     'want': [(seq[j][k][0], C.short(seq[j][k][1])) for k in bad[:2]]})


def finalize(merged, tier):
    reasons = []
    for a in KINDS:
        for b in KINDS:
            if merged['cells'].get('%s>%s' % (a, b), 0) == 0:
                reasons.append('op-pair %s>%s never exercised' % (a, b))
    return reasons
