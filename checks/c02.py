"""C02 - segment metadata inheritance never changes what is read.
Bounded-exhaustive enumeration of header encodings (per channel: unlisted/full/full(other n)/full(other type)/
same/nodata; new-object-list flag; metadata flag; chunk count) for 2-3 segment files over a 2-channel universe,
each classified by the model as valid (compare with the model and with the fully explicit encoding) or
forbidden (must be rejected); random longer files beyond the bound; aliasing monitor on segment objects;
reach recorder on the state-machine functions."""
import io
import itertools
import random
import numpy as np

from vlib import model as M, compare as C, contracts, util
from vlib.reach import Reach, unreached, summary

ID = 'C02'
LEVEL = 'exploration'
LEVEL_TEXT = "Bounded-exhaustive enumeration of the header-encoding state machine (all 2-segment encodings in quick, all 3-segment encodings in thorough, over a 2-channel universe) plus random long files; each encoding is classified by the model and either compared with the model and its fully explicit re-encoding (eager and lazy) or required to be rejected. An aliasing monitor snapshots every segment's object list at parse time and re-checks it at the end; a sys.monitoring reach recorder proves every line of the state-machine functions ran."
LEVEL_NOTE = "Trusted: the model's list-order/inheritance rules (NI format description). Beyond the bound coverage is random."
TECHNIQUE = 'bounded-exhaustive encoding enumeration against a reference model + aliasing snapshots + sys.monitoring reach recorder'
RULE = ('bounded-exhaustive: all sequences of 2 segments (quick; +sampled 3-segment) / all sequences of 3 segments '
        '(thorough; +sampled 4-segment; + all 2-segment and sampled 3-segment sequences over a 3-channel universe) over per-channel ops {unlisted, full n=1, full n=2, full other type, same, nodata}^2 '
        'x new-obj-list x metadata flag x chunks{1,2}; plus random 5-12 segment files with strings/properties/'
        'interleaving. non-trivial = encoding uses at least one non-full mechanism (same/nodata/unlisted carry-over/'
        'no metadata) and holds data; distinct = the encoding string itself')
ASSUMPTIONS = ['model list-order rule: listed objects replace in place, new ones append; NewObjList clears the list',
               "forbidden = first segment without metadata, 'same' for a path whose index was never defined, "
               "full index whose type differs from an earlier index of the path"]
REQUIRED = ['daqmx_compared', 'valid_compared', 'forbidden_checked', 'alias_snapshots', 'explicit_compared', 'lazy_compared']
EXHAUSTIVE = {'quick': False, 'thorough': False}

A, B, CC = "/'g'/'a'", "/'g'/'b'", "/'h'/'c'"
OPS = ['-', 'f1', 'f2', 'fx', 's', 'n']     # unlisted, full n=1, full n=2, full other type n=1, same, nodata
TYPE_OF = {A: 'i32', B: 'i16', CC: 'f64'}
OTHER = {A: 'f32', B: 'f64', CC: 'i64'}      # equally sized and differently sized alternative types


def seg_choices(nchan=2):
    out = []
    for ops in itertools.product(OPS, repeat=nchan):
        for newobj in (0, 1):
            for nch in (1, 2):
                out.append((1, newobj) + tuple(ops) + (nch,))
    out.append((0, 0) + ('-',) * nchan + (1,))
    out.append((0, 0) + ('-',) * nchan + (2,))
    return out


CHOICES = seg_choices(2)
CHOICES3 = seg_choices(3)       # three-channel universe (thorough)


def gen_cases(tier, seed):
    n = len(CHOICES)
    if tier == 'quick':
        for i in range(n):
            for j in range(n):
                yield {'k': 'enum', 'segs': [i, j]}
        rng = random.Random('c02q%d' % seed)
        for _ in range(12000):
            yield {'k': 'enum', 'segs': [rng.randrange(n) for _ in range(3)]}
        for i in range(1500):
            yield {'k': 'rnd', 's': seed * 1000003 + i}
        for i in range(600):
            yield {'k': 'daqmx', 's': seed * 1000003 + i}
    else:
        for i in range(n):
            for j in range(n):
                for k in range(n):
                    yield {'k': 'enum', 'segs': [i, j, k]}
        rng = random.Random('c02t%d' % seed)
        for _ in range(200000):
            yield {'k': 'enum', 'segs': [rng.randrange(n) for _ in range(4)]}
        n3 = len(CHOICES3)
        for i in range(n3):
            for j in range(n3):
                yield {'k': 'enum3', 'segs': [i, j]}
        for i in range(30000):
            yield {'k': 'daqmx', 's': seed * 1000003 + i}
        for _ in range(300000):
            yield {'k': 'enum3', 'segs': [rng.randrange(n3) for _ in range(3)]}
        for i in range(40000):
            yield {'k': 'rnd', 's': seed * 1000003 + i}


def build_enum(choice_ids, rng, choices=None, paths=(A, B)):
    """-> (segs, verdict) verdict in valid / forbidden:<why>"""
    choices = choices or CHOICES
    segs, active, last_index, ever_type = [], [], {}, {}
    verdict = 'valid'
    for si, cid in enumerate(choice_ids):
        ch_ = choices[cid]
        has_meta, newobj, nch = ch_[0], ch_[1], ch_[-1]
        ops_ = ch_[2:-1]
        s = M.Seg()
        s.endian = '<'
        s.has_meta = bool(has_meta)
        s.new_obj_list = bool(newobj)
        if not has_meta:
            if si == 0:
                verdict = 'forbidden:first-segment-without-metadata'
        else:
            prev_active = list(active)
            if newobj or si == 0:
                active = []
                prev_for_order = []
            else:
                prev_for_order = prev_active
            listing = []
            for p, op in zip(paths, ops_):
                if op == '-':
                    continue
                cur = [i for i, (pp, _, _) in enumerate(active) if pp == p]
                if op == 's':
                    if p not in last_index:
                        if verdict == 'valid':
                            verdict = 'forbidden:same-without-index'
                        idx = None
                    else:
                        idx = last_index[p]
                    hdr, entry = 'same', (p, True, idx)
                elif op == 'n':
                    hdr, idx, entry = 'nodata', None, (p, False, last_index.get(p))
                else:
                    t = OTHER[p] if op == 'fx' else TYPE_OF[p]
                    idx = (t, 2 if op == 'f2' else 1, None)
                    if p in ever_type and ever_type[p] != t and verdict == 'valid':
                        verdict = 'forbidden:type-change'
                    ever_type.setdefault(p, t)
                    hdr, entry = 'full', (p, True, idx)
                    last_index[p] = idx
                listing.append((p, hdr, idx))
                if cur:
                    active[cur[0]] = entry
                else:
                    active.append(entry)
            s.listing = listing
        if verdict.startswith('forbidden'):
            # encode what can be encoded: data for objects with a known index only
            s.active = [(p, hd and idx is not None, idx) for p, hd, idx in active]
        else:
            s.active = list(active)
        dobjs = s.data_objects()
        nonzero = any(M.obj_size(idx) > 0 for _, idx in dobjs)
        for c in range(nch if nonzero else 0):
            s.chunks.append({p: M.rand_values(rng, idx[0], idx[1]) for p, idx in dobjs})
        s.raw_flag = True
        segs.append(s)
        if verdict.startswith('forbidden'):
            break
    return segs, verdict


def shard_setup(ctx):
    contracts.install()
    import nptdms.tdms_segment as ts
    import nptdms.reader as rd
    ctx.alias_log = []
    orig = ts.TdmsSegment.read_segment_objects

    def watched(self, *a, **k):
        r = orig(self, *a, **k)
        ctx.alias_log.append((self, snap_objs(self)))
        return r
    ts.TdmsSegment.read_segment_objects = watched
    ctx.reach = None
    if True:
        ctx.reach = Reach({
            'update_existing_object': ts.TdmsSegment._update_existing_object,
            'reuse_previous_object': ts.TdmsSegment._reuse_previous_object,
            'reuse_previous_segment_metadata': ts.TdmsSegment._reuse_previous_segment_metadata,
            'SegmentIndexCache.get_index': ts.SegmentIndexCache.get_index,
            'update_object_data_type': rd._update_object_data_type,
        })
        ctx.reach.start()


def shard_teardown(ctx):
    contracts.drain(ctx)
    if ctx.reach:
        ctx.reach.stop()
        ctx.reach.report(ctx)


def snap_objs(seg):
    return [(o.path, o.has_data, o.number_values, o.data_size, None if o.data_type is None else o.data_type.__name__)
            for o in (seg.ordered_objects or [])]


def logical_snapshot(tf):
    out = {'groups': [(g.name, [c.name for c in g.channels()]) for g in tf.groups()], 'chan': {}}
    for g in tf.groups():
        for c in g.channels():
            out['chan'][c.path] = (None if c.data_type is None else c.data_type.__name__, len(c),
                                   C.image(c[:]), C.props_snapshot(c.properties))
        out['chan']['G:' + g.path] = C.props_snapshot(g.properties)
    out['root'] = C.props_snapshot(tf.properties)
    return out


def read_both(ctx, blob, case, label):
    """eager + lazy logical snapshots (or the exception)."""
    from nptdms import TdmsFile
    res = {}
    for mode in ('eager', 'lazy'):
        ctx.alias_log = []
        try:
            if mode == 'eager':
                tf = TdmsFile.read(io.BytesIO(blob), raw_timestamps=True)
                res[mode] = logical_snapshot(tf)
            else:
                with TdmsFile.open(io.BytesIO(blob), raw_timestamps=True) as tf:
                    res[mode] = logical_snapshot(tf)
        except Exception as ex:
            res[mode] = ex
            continue
        # aliasing monitor: what each segment looked like when its own metadata had just been parsed
        for seg, snap in ctx.alias_log:
            ctx.count('alias_snapshots')
            if snap_objs(seg) != snap:
                ctx.violation('alias/segment-object-changed-after-later-segment-parsed',
                              {'label': label, 'mode': mode, 'at_parse': snap, 'now': snap_objs(seg)})
    return res


def compare_model(ctx, segs, snap, label):
    exp = M.Expected(segs)
    for p in exp.channels():
        if p not in snap['chan']:
            ctx.violation('%s/channel-missing' % label, {'path': p})
            continue
        tname, n, img, props = snap['chan'][p]
        t = exp.types.get(p)
        if n != exp.length(p):
            ctx.violation('%s/length' % label, {'path': p, 'got': n, 'want': exp.length(p)})
        if t is not None:
            want = C.expected_image(t, exp.flat(p))
            if not C.img_equal(img, want):
                ctx.violation('%s/data' % label, {'path': p, 'got': C.short(img), 'want': C.short(want)})
            if tname != C.TDS_NAME[t]:
                ctx.violation('%s/type' % label, {'path': p, 'got': tname, 'want': C.TDS_NAME[t]})
    extra = [p for p in snap['chan'] if not p.startswith('G:') and p not in exp.channels()]
    if extra:
        ctx.violation('%s/channel-extra' % label, {'paths': extra})
    by_group = {}
    for p in exp.channels():
        g, c = M.split_path(p)
        by_group.setdefault(g, []).append(c)
    for g, chans in snap['groups']:
        if chans != by_group.get(g, []):
            ctx.violation('%s/channel-order' % label, {'group': g, 'got': chans, 'want': by_group.get(g, [])})


def daqmx_case(case, ctx):
    """DAQmx raw data: the compact encodings (same-as-previous index, no metadata, a channel switched off with a no-data
    index) against the fully explicit encoding of the same content, eager and lazy, scaler by scaler."""
    from nptdms import TdmsFile
    from vlib import daqmx as D
    rng = random.Random('c02d/%d' % case['s'])
    f = D.gen_daqmx(rng, allow_drop=True, max_segs=4)
    kinds = tuple(sg['meta'] for sg in f.segs)
    compact, explicit = f.encode()[0], f.encode(explicit=True)[0]
    ctx.count('daqmx_files')
    if any(k_ != 'full' for k_ in kinds):
        ctx.distinct(('daqmx', kinds, f.signature()[:3]))
    ctx.cell('daqmx-kinds:' + '|'.join(kinds))

    def snap(blob, lazy):
        tf = (TdmsFile.open if lazy else TdmsFile.read)(io.BytesIO(blob))
        try:
            out = {}
            for g in tf.groups():
                for ch in g.channels():
                    raw = ch.read_data(scaled=False)
                    out[ch.path] = (len(ch), {k_: C.image(v_) for k_, v_ in raw.items()} if isinstance(raw, dict) else C.image(raw),
                                    C.props_snapshot(ch.properties), None if ch.data_type is None else ch.data_type.__name__)
            return [g.name for g in tf.groups()], out
        finally:
            tf.close()
    try:
        ref = snap(explicit, False)
    except Exception as ex:
        ctx.violation('daqmx/explicit-encoding-raises/%s' % util.exc_key(ex), {'file': f.describe(), 'exc': util.exc_detail(ex)})
        return
    for lazy in (False, True):
        for name, blob in (('compact', compact), ('explicit', explicit)):
            if name == 'explicit' and not lazy:
                continue
            try:
                got = snap(blob, lazy)
            except Exception as ex:
                ctx.violation('daqmx/%s-encoding-raises/%s/%s' % (name, 'lazy' if lazy else 'eager', util.exc_key(ex)),
                              {'kinds': kinds, 'file': f.describe(), 'exc': util.exc_detail(ex)})
                continue
            ctx.count('daqmx_compared')
            if got != ref:
                bad = [p_ for p_ in set(ref[1]) | set(got[1]) if ref[1].get(p_) != got[1].get(p_)]
                ctx.violation('daqmx/%s-differs-from-explicit/%s' % (name, 'lazy' if lazy else 'eager'),
                              {'kinds': kinds, 'paths': bad[:3], 'lengths': [(ref[1].get(p_, (None,))[0], got[1].get(p_, (None,))[0]) for p_ in bad[:3]], 'file': f.describe()})


def run_case(case, ctx):
    ctx.evaluation()
    if case['k'] == 'daqmx':
        return daqmx_case(case, ctx)
    if case['k'] in ('enum', 'enum3'):
        rng = random.Random('c02e' + case['k'] + repr(case['segs']))
        if case['k'] == 'enum':
            segs, verdict = build_enum(case['segs'], rng)
            enc_name = '|'.join('%d%d%s%s%d' % CHOICES[c] for c in case['segs'])
        else:
            segs, verdict = build_enum(case['segs'], rng, CHOICES3, (A, B, CC))
            enc_name = '3:' + '|'.join('%d%d%s%s%s%d' % CHOICES3[c] for c in case['segs'])
    else:
        rng = random.Random('c02r%d' % case['s'])
        segs = M.gen_file(rng, max_segs=12, max_chans=4, p_same=0.4, p_nodata=0.2, p_nometa=0.2, p_newobj=0.3,
                          types=['i32', 'f64', 'str', 'u8', 'ts', 'i16'], lens=(0, 1, 2, 3))
        while len(segs) < 5:
            segs = M.gen_file(rng, max_segs=12, max_chans=4, p_same=0.4, p_nodata=0.2, p_nometa=0.2, p_newobj=0.3,
                              types=['i32', 'f64', 'str', 'u8', 'ts', 'i16'], lens=(0, 1, 2, 3))
        verdict = 'valid'
        enc_name = 'rnd%d' % case['s']
    ctx.cell('verdict:' + verdict)
    blob, _, _ = M.encode_file(segs)
    ctx.sample({'case': case, 'verdict': verdict, 'segments': [s.describe() for s in segs]}, limit=2)
    res = read_both(ctx, blob, case, 'compact')
    if verdict.startswith('forbidden'):
        ctx.count('forbidden_checked')
        why = verdict.split(':')[1]
        for mode in ('eager', 'lazy'):
            if not isinstance(res[mode], Exception):
                ctx.violation('forbidden-not-rejected/%s/%s' % (why, mode),
                              {'encoding': enc_name, 'segments': [s.describe() for s in segs]})
            elif isinstance(res[mode], contracts.ContractBroken):
                ctx.violation('forbidden/contract/%s' % util.exc_key(res[mode]), {'encoding': enc_name})
        return
    nonfull = any((not s.has_meta) or any(h != 'full' for _, h, _ in s.listing) or
                  (s.has_meta and not s.new_obj_list and len(s.listing) < len(s.active)) for s in segs)
    if nonfull and any(s.chunks for s in segs):
        ctx.distinct(enc_name if case['k'] in ('enum', 'enum3') else tuple(s.signature() for s in segs))
    for mode in ('eager', 'lazy'):
        if isinstance(res[mode], Exception):
            ctx.violation('valid-encoding-raises/%s/%s' % (mode, util.exc_key(res[mode])),
                          {'encoding': enc_name, 'exc': util.exc_detail(res[mode]), 'segments': [s.describe() for s in segs]})
            return
    ctx.count('valid_compared')
    compare_model(ctx, segs, res['eager'], 'compact-vs-model')
    if res['eager'] != res['lazy']:
        ctx.violation('compact/lazy-differs-from-eager', {'encoding': enc_name})
    ctx.count('lazy_compared')
    # the explicit encoding of the same content
    xblob, _, _ = M.encode_file(segs, explicit=True)
    xres = read_both(ctx, xblob, case, 'explicit')
    for mode in ('eager', 'lazy'):
        if isinstance(xres[mode], Exception):
            ctx.violation('explicit-encoding-raises/%s/%s' % (mode, util.exc_key(xres[mode])), {'encoding': enc_name})
            return
    ctx.count('explicit_compared')
    a, b = res['eager'], xres['eager']
    if a['chan'] != b['chan'] or a['root'] != b['root']:
        diff = [p for p in a['chan'] if a['chan'].get(p) != b['chan'].get(p)]
        ctx.violation('compact-differs-from-explicit/content', {'encoding': enc_name, 'paths': diff,
                                                               'segments': [s.describe() for s in segs]})
    if [(g, c) for g, c in a['groups']] != [(g, c) for g, c in b['groups']]:
        ctx.violation('compact-differs-from-explicit/order', {'encoding': enc_name, 'compact': a['groups'], 'explicit': b['groups']})


def finalize(merged, tier):
    reasons = []
    for lab, lines in unreached(merged['cells']).items():
        if lines:
            reasons.append('reach: %s lines never executed: %s' % (lab, lines))
    for v in ('valid', 'forbidden:first-segment-without-metadata', 'forbidden:same-without-index', 'forbidden:type-change'):
        if merged['cells'].get('verdict:' + v, 0) == 0:
            reasons.append('no case with verdict %s' % v)
    return reasons


def evidence_extra(merged, tier):
    cells = merged['cells']
    out = {'reach': summary(cells)}
    out['coverage_cells_note'] = 'reach:/reachable: cells list executed statement lines of the anchored functions'
    return out
