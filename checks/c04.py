"""C04 - windows, slices and indices mean what they mean on the full array."""
import io
import random
import numpy as np

from vlib import model as M, compare as C, contracts, util
from vlib.reach import Reach, unreached, summary

ID = 'C04'
LEVEL = 'exploration'
LEVEL_TEXT = ('Generated files biased to the index arithmetic (channel absent or without data in intermediate segments, multi-chunk '
              'segments of differing chunk sizes, truncated final chunk, zero-length channels, all 17 types) are opened lazily and '
              'eagerly; for short channels every (offset, length) window, every slice with start/stop in [-len-2, len+2] and step in '
              '{None,+-1,+-2,+-3,0} and every integer index is executed and compared with NumPy semantics on the full array; longer '
              'channels are sampled at chunk/segment edges. Receiver contracts catch over-reads that NumPy broadcasting would hide.')
LEVEL_NOTE = 'Oracle R is the eager channel[:] of the same file (itself tied to the model by C01). Trusted: NumPy slicing semantics.'
TECHNIQUE = 'exhaustive window/slice/index enumeration per generated file against NumPy semantics, with icontract receiver contracts'
RULE = ('files from vlib.model.gen_file (bias: many segments, no-data/unlisted segments, 1-4 chunks, lengths 0-5) incl. truncated copies; '
        'non-trivial = channel whose values span >=2 chunks or segments; distinct = per-channel tuple of (segment, chunk length) pieces + type')
ASSUMPTIONS = ['read_data is only specified for offset >= 0 and length >= 0 or None']
REQUIRED = ['full_reads_overwritten_by_caller', 'cross_channel_indices', 'staggered_files', 'daqmx_files', 'daqmx_windows', 'daqmx_slices', 'slices_after_index', 'short_middle_files', 'long_files', 'windows', 'slices', 'indices', 'windows_crossing_boundary', 'index_errors_checked', 'step0_checked',
            'contract:channel._read_channel_data.len', 'truncated_files']
N = {'quick': 640, 'thorough': 20000}
STEPS = [None, 1, -1, 2, -2, 3, -3, 0]


def gen_cases(tier, seed):
    for i in range(N[tier]):
        yield {'s': seed * 1000003 + i, 'cut': i % 4 == 3, 'raw_ts': i % 2 == 0}
    for i in range(N[tier] // 40):
        yield {'s': seed * 1000003 + i, 'cut': False, 'raw_ts': False, 'long': True}
    for i in range(N[tier] // 8):
        yield {'s': seed * 1000003 + i, 'cut': False, 'raw_ts': i % 2 == 0, 'short_middle': True}
    for i in range(N[tier] // 8):
        yield {'s': seed * 1000003 + i, 'cut': False, 'raw_ts': False, 'same_total': True}
    for i in range(N[tier] // 8):
        yield {'s': seed * 1000003 + i, 'cut': False, 'raw_ts': False, 'staggered': True}
    for i in range(N[tier] // 4):
        yield {'s': seed * 1000003 + i, 'cut': False, 'raw_ts': False, 'daqmx': True}
    for i in range(max(4, N[tier] // 1000)):
        yield {'s': seed * 1000003 + i, 'cut': False, 'raw_ts': False, 'long': True, 'very': True}


def shard_setup(ctx):
    contracts.install()
    ctx.reach = None
    if True:
        import nptdms.reader as rd
        import nptdms.tdms as tdms
        ctx.reach = Reach({'read_raw_data_for_channel': rd.TdmsReader.read_raw_data_for_channel,
                           '_read_slice': tdms.TdmsChannel._read_slice, '_read_at_index': tdms.TdmsChannel._read_at_index,
                           '_build_index': rd.TdmsReader._build_index}, ignore_raise=True)
        ctx.reach.start()


def shard_teardown(ctx):
    contracts.drain(ctx)
    if ctx.reach:
        ctx.reach.stop()
        ctx.reach.report(ctx)


def build(case):
    rng = random.Random('c04/%d' % case['s'])
    if case.get('long'):
        from checks.c05 import long_file, very_long_file
        segs = very_long_file(rng) if case.get('very') else long_file(rng)
        return segs, M.encode_file(segs)[0], None, rng
    if case.get('staggered'):
        from checks.c05 import staggered_file
        segs = staggered_file(rng)
        return segs, M.encode_file(segs)[0], None, rng
    if case.get('same_total'):
        from checks.c05 import same_total_file
        segs = same_total_file(rng)
        return segs, M.encode_file(segs)[0], None, rng
    if case.get('short_middle'):
        from checks.c05 import short_middle_file
        segs, blob = short_middle_file(rng)
        return segs, blob, None, rng
    segs = M.gen_file(rng, max_segs=8, max_chans=4, lens=(0, 1, 2, 3, 4, 5), chunks=(1, 2, 3, 4), p_nodata=0.25, p_newobj=0.5,
                      p_same=0.3, p_nometa=0.15, extra_objects=False, p_props=0.0, p_zero_chunks=0.15)
    blob, _, lay = M.encode_file(segs)
    cut = None
    if case['cut']:
        # cut inside the raw data of the last segment holding data, if it has only fixed-size types
        cands = [i for i, s in enumerate(segs) if s.chunks]
        if cands and cands[-1] == len(segs) - 1 and all(ix[0] != 'str' for _, ix in segs[-1].data_objects()):
            l = lay.segs[-1]
            if l['end'] - l['data_start'] > 1:
                cut = rng.randrange(l['data_start'] + 1, l['end'])
                blob = blob[:cut]
    return segs, blob, cut, rng


def pieces(segs, path):
    """[(segment index, chunk length)] for every chunk that holds values of `path` (complete file)."""
    out = []
    for si, s in enumerate(segs):
        for p, ix in s.data_objects():
            if p == path and ix[1] > 0:
                out += [(si, ix[1])] * len(s.chunks)
    return out


def scalar_image(x):
    if hasattr(x, 'seconds') and hasattr(x, 'second_fractions'):
        return ('ts', int(x.seconds), int(x.second_fractions))
    if isinstance(x, str):
        return ('str', x)
    a = np.asarray(x)
    return ('num', C.norm_dtype(a.dtype), a.tobytes())


def run_daqmx(case, ctx):
    """DAQmx files: every window and a sample of slices, scaled (where the channel is scalable) and unscaled, lazy and eager."""
    from nptdms import TdmsFile
    from checks import c11 as DQ
    f, rng = DQ.build({'s': case['s']})
    blob = f.encode()[0]
    ctx.count('daqmx_files')
    eager = TdmsFile.read(io.BytesIO(blob))
    with TdmsFile.open(io.BytesIO(blob)) as lazy:
        for g in eager.groups():
            for ech in g.channels():
                lch = lazy[g.name][ech.name]
                ctx.evaluation()
                U = ech.read_data(scaled=False)
                Uimg = {k: C.image(v) for k, v in U.items()} if isinstance(U, dict) else C.image(U)
                try:
                    Rimg = C.image(ech[:])
                except ValueError:
                    Rimg = None          # raw DAQmx channel without scaling information
                n = len(ech)
                sizes = [len(c) for c in lch.data_chunks()]
                bounds = set(np.cumsum(sizes).tolist()[:-1]) if sizes else set()
                if len(sizes) >= 2:
                    ctx.distinct(('daqmx', tuple(sizes), f.signature()[:2]))
                info = lambda **kw: dict(kw, path=ech.path, n=n, chunks=sizes, file=f.describe())
                if n <= 16:
                    wins = [(o, l) for o in range(n + 2) for l in list(range(n + 2)) + [None]]
                else:
                    edges = sorted({0, n} | {b + d for b in bounds for d in (-1, 0, 1)})
                    wins = [(rng.choice(edges), rng.choice([None, 0, 1, 2, rng.randrange(n + 2)])) for _ in range(150)]
                for mode, ch in (('lazy', lch), ('eager', ech)):
                    for o, l in wins:
                        if o < 0:
                            continue
                        sl = slice(o, None if l is None else o + l)
                        ctx.count('daqmx_windows')
                        try:
                            got = ch.read_data(o, l, scaled=False)
                            if isinstance(Uimg, dict):
                                ok = isinstance(got, dict) and set(got) == set(Uimg) and all(
                                    C.img_equal(C.image(got[k]), C.image_slice(Uimg[k], sl)) for k in Uimg)
                            else:
                                ok = C.img_equal(C.image(got), C.image_slice(Uimg, sl))
                            if not ok:
                                ctx.violation('daqmx-window/%s/unscaled-mismatch' % mode, info(offset=o, length=l))
                            if Rimg is not None:
                                got = ch.read_data(o, l)
                                if not C.img_equal(C.image(got), C.image_slice(Rimg, sl)):
                                    ctx.violation('daqmx-window/%s/scaled-mismatch' % mode, info(offset=o, length=l, got=C.short(C.image(got)),
                                                                                                  want=C.short(C.image_slice(Rimg, sl))))
                        except Exception as ex:
                            ctx.violation('daqmx-window/%s/raises/%s' % (mode, util.exc_key(ex)), info(offset=o, length=l, exc=util.exc_detail(ex)))
                    if Rimg is None:
                        continue
                    rngv = [None] + list(range(-n - 1, n + 2))
                    for _ in range(60):
                        a, b, c = rng.choice(rngv), rng.choice(rngv), rng.choice(STEPS[:-1])
                        ctx.count('daqmx_slices')
                        try:
                            got = ch[a:b:c]
                            if not C.img_equal(C.image(got), C.image_slice(Rimg, slice(a, b, c))):
                                ctx.violation('daqmx-slice/%s/mismatch' % mode, info(slice=(a, b, c)))
                        except Exception as ex:
                            ctx.violation('daqmx-slice/%s/raises/%s' % (mode, util.exc_key(ex)), info(slice=(a, b, c), exc=util.exc_detail(ex)))


def run_case(case, ctx):
    from nptdms import TdmsFile
    if case.get('daqmx'):
        return run_daqmx(case, ctx)
    segs, blob, cut, rng = build(case)
    if case.get('staggered'):
        ctx.count('staggered_files')
    if cut is not None:
        ctx.count('truncated_files')
    if case.get('long'):
        ctx.count('long_files')
    if case.get('short_middle'):
        ctx.count('short_middle_files')
    ctx.sample({'case': case, 'cut': cut, 'segments': [s.describe() for s in segs][:3]}, limit=2)
    try:
        eager = TdmsFile.read(io.BytesIO(blob), raw_timestamps=case['raw_ts'])
    except Exception as ex:
        if cut is None:
            ctx.violation('eager-read-raises/%s' % util.exc_key(ex), {'exc': util.exc_detail(ex), 'segments': [s.describe() for s in segs]})
        else:
            ctx.count('truncated_eager_raises')   # judged by C06
        return
    lazy = TdmsFile.open(io.BytesIO(blob), raw_timestamps=case['raw_ts'])
    try:
        for g in eager.groups():
            for ech in g.channels():
                lch = lazy[g.name][ech.name]
                try:
                    R = ech[:]
                except Exception as ex:
                    ctx.violation('eager-full-raises/%s' % util.exc_key(ex), {'path': ech.path})
                    continue
                Rimg = C.image(R)
                n = len(R)
                if len(ech) != n or len(lch) != n:
                    ctx.violation('len-disagrees', {'path': ech.path, 'eager_len': len(ech), 'lazy_len': len(lch), 'n': n})
                    continue
                pcs = pieces(segs, ech.path)
                tkind = 'str' if Rimg[0] == 'obj' else ('ts' if Rimg[0] in ('ts', 'dt') else 'num')
                bounds = set(np.cumsum([p[1] for p in pcs]).tolist()[:-1]) if pcs else set()
                if len(pcs) >= 2:
                    ctx.distinct((tkind, tuple(pcs), cut is not None))
                for mode, ch in (('lazy', lch), ('eager', ech)):
                    check_channel(ctx, case, segs, mode, ch, Rimg, R, n, bounds, tkind, rng, cut)
        # ---- the same index looked up in one channel after another (lookups of different channels interleave)
        full = {}
        for g in eager.groups():
            for ech in g.channels():
                try:
                    full[(g.name, ech.name)] = ech[:]
                except Exception:
                    pass
        keys = [k for k in full if len(full[k])]
        for _ in range(40 if keys else 0):
            i = rng.randrange(max(len(full[k]) for k in keys))
            order = keys[:]
            rng.shuffle(order)
            for k in order:
                if i >= len(full[k]):
                    continue
                ctx.count('cross_channel_indices')
                try:
                    got = lazy[k[0]][k[1]][i]
                except Exception as ex:
                    ctx.violation('cross-channel-index/raises/%s' % util.exc_key(ex), {'index': i, 'channel': k, 'order': order,
                                                                                       'segments': [s.describe() for s in segs][:6]})
                    break
                if scalar_image(got) != scalar_image(full[k][i]):
                    ctx.violation('cross-channel-index/mismatch', {'index': i, 'channel': k, 'order': order, 'got': repr(got), 'want': repr(full[k][i]),
                                                                   'segments': [s.describe() for s in segs][:6]})
    finally:
        lazy.close()


def check_channel(ctx, case, segs, mode, ch, Rimg, R, n, bounds, tkind, rng, cut):
    ctx.evaluation()
    shape = 'zero-length' if n == 0 else 'nonempty'
    info = lambda **kw: dict(kw, path=ch.path, n=n, mode=mode, cut=cut, segments=[s.describe() for s in segs][:6])
    # ---- on a lazily opened file the caller owns what it was handed: a complete read whose result the caller then overwrites
    #      must not change what later windows, slices and indices return
    if mode == 'lazy' and n and tkind == 'num':
        try:
            lo_, hi_ = (n // 3, max(n // 3 + 1, 2 * n // 3))
            for full, want_ in ((ch.read_data(), Rimg), (ch[:], Rimg), (ch[lo_:hi_], C.image_slice(Rimg, slice(lo_, hi_))),
                                (ch.read_data(lo_, hi_ - lo_), C.image_slice(Rimg, slice(lo_, hi_)))):
                if C.img_equal(C.image(full), want_) and isinstance(full, np.ndarray) and full.dtype.kind in 'iuf' and full.flags.writeable:
                    full[...] = 0
                    ctx.count('full_reads_overwritten_by_caller')
                    for i_ in sorted({lo_, hi_ - 1, n - 1, 0}):
                        if scalar_image(ch[i_]) != scalar_image(R[i_]):
                            ctx.violation('index/lazy/returns-what-the-caller-wrote-into-an-earlier-result', info(index=i_))
                            break
        except Exception as ex:
            ctx.violation('window/lazy/full-read-raises/%s' % util.exc_key(ex), info(exc=util.exc_detail(ex)))
    # ---- windows
    if n <= 24:
        wins = [(o, l) for o in range(n + 3) for l in list(range(n + 3)) + [None]]
    else:
        edges = sorted({0, n} | {b + d for b in bounds for d in (-1, 0, 1)})
        wins = [(rng.choice(edges), rng.choice([None, 0, 1, 2, rng.randrange(n + 2)])) for _ in range(300)]
    for o, l in wins:
        if o < 0:
            continue
        ctx.count('windows')
        end = None if l is None else o + l
        if any(o < b < (n if end is None else min(end, n)) for b in bounds):
            ctx.count('windows_crossing_boundary')
        try:
            got = ch.read_data(o, l)
        except Exception as ex:
            ctx.violation('window/%s/raises/%s/%s/%s' % (mode, util.exc_key(ex), tkind, shape), info(offset=o, length=l, exc=util.exc_detail(ex)))
            continue
        if not C.img_equal(C.image(got), C.image_slice(Rimg, slice(o, end))):
            ctx.violation('window/%s/mismatch/%s' % (mode, tkind), info(offset=o, length=l, got=C.short(C.image(got)), want=C.short(C.image_slice(Rimg, slice(o, end)))))
    # ---- slices
    rngv = [None] + list(range(-n - 2, n + 3))
    if n <= 6:
        sls = [(a, b, c) for a in rngv for b in rngv for c in STEPS]
    else:
        sls = [(rng.choice(rngv), rng.choice(rngv), rng.choice(STEPS)) for _ in range(1200)]
    for a, b, c in sls:
        ctx.count('slices')
        if c == 0:
            ctx.count('step0_checked')
            try:
                ch[a:b:c]
                ctx.violation('slice/%s/step0-accepted' % mode, info(slice=(a, b, c)))
            except ValueError:
                pass
            except Exception as ex:
                ctx.violation('slice/%s/step0-wrong-exception/%s' % (mode, util.exc_key(ex)), info(slice=(a, b, c)))
            continue
        try:
            got = ch[a:b:c]
        except Exception as ex:
            ctx.violation('slice/%s/raises/%s/%s/%s' % (mode, util.exc_key(ex), tkind, shape), info(slice=(a, b, c), exc=util.exc_detail(ex)))
            continue
        want = C.image_slice(Rimg, slice(a, b, c))
        if not C.img_equal(C.image(got), want):
            ctx.violation('slice/%s/mismatch/%s' % (mode, tkind), info(slice=(a, b, c), got=C.short(C.image(got)), want=C.short(want)))
    # ---- integer indices
    idxs = range(-n - 2, n + 2) if n <= 40 else [rng.randrange(-n - 2, n + 2) for _ in range(60)]
    for i in idxs:
        ctx.count('indices')
        if -n <= i < n:
            try:
                got = ch[i]
            except Exception as ex:
                ctx.violation('index/%s/raises/%s' % (mode, util.exc_key(ex)), info(index=i, exc=util.exc_detail(ex)))
                continue
            if scalar_image(got) != scalar_image(R[i]):
                ctx.violation('index/%s/mismatch/%s' % (mode, tkind), info(index=i, got=repr(got), want=repr(R[i])))
        else:
            ctx.count('index_errors_checked')
            try:
                ch[i]
                ctx.violation('index/%s/out-of-range-accepted' % mode, info(index=i))
            except IndexError:
                pass
            except Exception as ex:
                ctx.violation('index/%s/out-of-range-wrong-exception/%s' % (mode, util.exc_key(ex)), info(index=i))
    # ---- slices and windows issued right after an integer index (the one-chunk cache is warm)
    if n:
        for _ in range(12 if n <= 24 else 30):
            i = rng.randrange(n)
            try:
                ch[i]
                for (a, b, c) in [(i, i + 2, None), (max(0, i - 3), i + 4, None), (i, None, None), (i + 1, max(0, i - 4), -1), (max(0, i - 1), i + 6, 2)]:
                    ctx.count('slices_after_index')
                    got = ch[a:b:c]
                    if not C.img_equal(C.image(got), C.image_slice(Rimg, slice(a, b, c))):
                        ctx.violation('slice-after-index/%s/mismatch/%s' % (mode, tkind), info(index=i, slice=(a, b, c), got=C.short(C.image(got)), want=C.short(C.image_slice(Rimg, slice(a, b, c)))))
                o, l = max(0, i - 1), 3
                got = ch.read_data(o, l)
                if not C.img_equal(C.image(got), C.image_slice(Rimg, slice(o, o + l))):
                    ctx.violation('window-after-index/%s/mismatch/%s' % (mode, tkind), info(index=i, offset=o, length=l))
            except Exception as ex:
                ctx.violation('after-index/%s/raises/%s' % (mode, util.exc_key(ex)), info(index=i, exc=util.exc_detail(ex)))


def finalize(merged, tier):
    reasons = []
    for lab, lines in unreached(merged['cells']).items():
        if lines:
            reasons.append('reach: %s lines never executed: %s' % (lab, lines))
    return reasons


def evidence_extra(merged, tier):
    return {'reach': summary(merged['cells'])}
