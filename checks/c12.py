"""C12 - timestamps round-trip exactly and convert to datetime64 within one unit."""
import io
import os
import random
import struct
from fractions import Fraction
import numpy as np

from vlib import model as M, compare as C, util

ID = 'C12'
LEVEL = 'exploration'
LEVEL_TEXT = ('Exhaustive core + exploration: (a) every one of the 10^6 sub-second microsecond values, for several seconds values incl. '
              'pre-1904 (negative) ones, is encoded by the real TimeStamp and decoded by the real reader through the scalar and the array '
              'conversion path and must come back identical; (b) the same through TdmsWriter -> TdmsFile as property and as channel data; '
              '(c) raw (seconds, fractions) pairs must survive read, write and defragment bit-exactly in both byte orders; (d) for '
              'adversarial (seconds, fractions) - unit boundaries +-1, 0, 2^64-1, float rounding points - the exact rational error of '
              'as_datetime64 at s/ms/us/ns is bounded by one unit, conversions are monotone and scalar == array; (e) time_track() length, '
              'first point, spacing and absolute form for channel lengths 0, 1, n.')
LEVEL_NOTE = ('Exact arithmetic with fractions.Fraction is the oracle. An allowance of 1e-6 unit covers the double precision evaluation '
              "that the property's own anchor describes.")
TECHNIQUE = 'exhaustive microsecond sweep + exact-rational oracle on adversarial inputs, executed against the real encode/decode paths'
RULE = ('(a) all 10^6 microseconds x seconds values; (d) boundary-adjacent fractions; non-trivial = value whose sub-second part is non-zero; '
        'distinct = (part, seconds value, block) / (resolution, fraction class)')
ASSUMPTIONS = ['datetime64 conversions are specified to truncate (within one unit), not to round']
REQUIRED = ['caller_built_timestamp_arrays_written', 'roundtrip_scalar_ns', 'writer_roundtrip_other_units', 'raw_rewritten', 'derived_array_conversions', 'time_track_exact_points', 'raw_scalar_paths', 'roundtrip_scalar', 'roundtrip_array', 'writer_roundtrip_values', 'raw_pairs_bit_exact', 'conversions_checked', 'monotone_pairs',
            'scalar_vs_array', 'time_tracks', 'defragment_raw']
EXHAUSTIVE = {'quick': False, 'thorough': False}
SECONDS = {
    'quick': ['2020-01-01T00:00:16', '1903-05-05T01:02:03', '2250-06-01T12:00:00', '1500-03-01T00:00:00'],
    'thorough': ['2020-01-01T00:00:16', '1903-05-05T01:02:03', '1904-01-01T00:00:00', '1899-12-31T23:59:59', '2262-01-01T00:00:00',
                 '1970-01-01T00:00:00', '2250-06-01T12:00:00', '1500-03-01T00:00:00', '0001-01-01T00:00:00', '9999-12-31T23:59:59'],
}
BLOCK = 10000


def gen_cases(tier, seed):
    for si, s in enumerate(SECONDS[tier]):
        for b in range(0, 10 ** 6, BLOCK):
            yield {'k': 'sweep', 'sec': s, 'from': b}
    for i in range(40 if tier == 'quick' else 4000):
        yield {'k': 'writer', 's': seed * 1000003 + i}
    for i in range(60 if tier == 'quick' else 50000):
        yield {'k': 'raw', 's': seed * 1000003 + i}
    for i in range(100 if tier == 'quick' else 200000):
        yield {'k': 'conv', 's': seed * 1000003 + i}
    for i in range(150 if tier == 'quick' else 100000):
        yield {'k': 'track', 's': seed * 1000003 + i}


def shard_setup(ctx):
    ctx.tmp = util.TempDir('c12')
    ctx.tmpdir = ctx.tmp.__enter__()


def shard_teardown(ctx):
    ctx.tmp.__exit__()


def run_case(case, ctx):
    {'sweep': sweep, 'writer': writer_rt, 'raw': raw_rt, 'conv': conversions, 'track': time_track}[case['k']](case, ctx)


# ------------------------------------------------------------------ (a) exhaustive microsecond sweep
def sweep(case, ctx):
    from nptdms.types import TimeStamp
    base = np.datetime64(case['sec'], 'us')
    us = np.arange(case['from'], case['from'] + BLOCK)
    vals = base + us.astype('m8[us]')
    blobs = []
    for v in vals:
        ctx.evaluation()
        b = TimeStamp(v).bytes
        blobs.append(b)
        r = TimeStamp.read(io.BytesIO(b), '<').as_datetime64('us')
        ctx.count('roundtrip_scalar')
        if r != v or r.dtype != np.dtype('M8[us]'):
            ctx.violation('microsecond-roundtrip/scalar-path', {'written': str(v), 'read': str(r), 'bytes': b.hex()})
    # the same instants held at nanosecond resolution (pandas' default unit) must be written identically
    if np.datetime64('1678-01-01') < base < np.datetime64('2262-01-01'):
        for v, b in list(zip(vals, blobs))[::37] + list(zip(vals, blobs))[-3:]:
            ctx.count('roundtrip_scalar_ns')
            try:
                bn = TimeStamp(v.astype('M8[ns]')).bytes
            except Exception as ex:
                ctx.violation('microsecond-roundtrip/nanosecond-unit-raises/%s' % util.exc_key(ex), {'value': str(v.astype('M8[ns]'))})
                break
            if bn != b:
                ctx.violation('microsecond-roundtrip/nanosecond-unit-differs', {'value': str(v.astype('M8[ns]')), 'bytes_ns': bn.hex(), 'bytes_us': b.hex()})
                break
    arr = TimeStamp.from_bytes(np.frombuffer(b''.join(blobs), dtype='u1'), '<')
    back = arr.as_datetime64('us')
    ctx.count('roundtrip_array', len(vals))
    bad = np.nonzero(back != vals)[0]
    if len(bad):
        i = int(bad[0])
        ctx.violation('microsecond-roundtrip/array-path', {'count': int(len(bad)), 'written': str(vals[i]), 'read': str(back[i])})
    # big-endian byte layout of the same values
    be = b''.join(struct.pack('>qQ', *struct.unpack('<Qq', b)[::-1]) for b in blobs[:200])
    arr_be = TimeStamp.from_bytes(np.frombuffer(be, dtype='u1'), '>')
    if (arr_be.as_datetime64('us') != vals[:200]).any():
        ctx.violation('microsecond-roundtrip/big-endian-array-path', {'sec': case['sec'], 'from': case['from']})
    ctx.distinct(('sweep', case['sec'], case['from']))
    ctx.sample({'case': case, 'first': str(vals[0]), 'last': str(vals[-1])}, limit=1)


# ------------------------------------------------------------------ (b) through the writer and the reader
def writer_rt(case, ctx):
    from nptdms import TdmsFile, TdmsWriter, ChannelObject, RootObject
    rng = random.Random('c12w/%d' % case['s'])
    n = 10000
    secs = rng.choice([0, -2082844800, rng.randrange(-3 * 10 ** 9, 4 * 10 ** 9), rng.randrange(-62135596800, 253402300799)])
    us = np.array([rng.randrange(10 ** 6) for _ in range(n)], dtype='i8')
    us[:4] = [0, 1, 999999, 500000]
    vals = (np.datetime64(secs, 's').astype('M8[us]') + us.astype('m8[us]'))
    props = {'t%d' % i: vals[i] for i in range(0, 60)}
    props['py'] = vals[7].astype(object)
    # the same kind of instants held in datetime64 arrays of other units (what pandas / np.datetime64('now') users pass)
    units = {'ms': vals[:500].astype('M8[ms]'), 's': vals[:500].astype('M8[s]')}
    if abs(secs) < 9.2 * 10 ** 9:
        units['ns'] = vals[:500].astype('M8[ns]')
    if abs(secs) < 10 ** 11:
        units['D'] = vals[:500].astype('M8[D]')
    units['us-big-endian'] = vals[:500].astype('>M8[us]')
    for u_, arr in units.items():
        props['unit_' + u_] = arr[5]
    buf = io.BytesIO()
    with TdmsWriter(buf) as w:
        keep_ = {u_: (arr.tobytes(), arr.dtype.str) for u_, arr in units.items()}
        w.write_segment([RootObject(props), ChannelObject('g', 'ts', vals), ChannelObject('g', 'tl', list(vals[:50].astype(object)))]
                        + [ChannelObject('u', u_, arr) for u_, arr in units.items()] + [ChannelObject('u2', u_, arr) for u_, arr in units.items()])
        for u_, arr in units.items():
            if (arr.tobytes(), arr.dtype.str) != keep_[u_]:
                ctx.violation('writer-roundtrip/writer-modified-the-callers-array/%s' % u_, {})
    ctx.evaluation()
    for mode in ('eager', 'lazy'):
        tf = (TdmsFile.read if mode == 'eager' else TdmsFile.open)(io.BytesIO(buf.getvalue()))
        got = tf['g']['ts'][:]
        ctx.count('writer_roundtrip_values', n)
        bad = np.nonzero(got != vals)[0]
        if got.dtype != np.dtype('M8[us]') or len(bad):
            ctx.violation('writer-roundtrip/channel-data', {'mode': mode, 'count': int(len(bad)), 'written': str(vals[bad[0]]) if len(bad) else None,
                                                            'read': str(got[bad[0]]) if len(bad) else None, 'dtype': str(got.dtype)})
        if (tf['g']['tl'][:] != vals[:50]).any():
            ctx.violation('writer-roundtrip/datetime-list', {'mode': mode})
        for u_, arr in [(k_, v_) for k_, v_ in units.items()] + [('2:' + k_, v_) for k_, v_ in units.items()]:
            gotu = tf['u2' if u_.startswith('2:') else 'u'][u_.split(':')[-1]][:]
            ctx.count('writer_roundtrip_other_units', len(arr))
            if gotu.dtype != np.dtype('M8[us]') or (gotu != arr.astype('M8[us]')).any():
                ctx.violation('writer-roundtrip/datetime64-unit/%s' % u_, {'mode': mode, 'written': str(arr[0]), 'read': str(gotu[0])})
        for k, v in props.items():
            want = np.datetime64(v, 'us')
            if tf.properties[k] != want:
                ctx.violation('writer-roundtrip/property', {'mode': mode, 'written': str(want), 'read': str(tf.properties[k])})
        tf.close()
    ctx.distinct(('writer', secs))


# ------------------------------------------------------------------ (c) raw pairs are bit exact
def raw_rt(case, ctx):
    from nptdms import TdmsFile, TdmsWriter, ChannelObject, RootObject
    from nptdms.timestamp import TdmsTimestamp
    rng = random.Random('c12r/%d' % case['s'])
    n = rng.choice([1, 5, 40])
    pairs = [M.rand_ts(rng, datetime_safe=False) for _ in range(n)]
    prop = M.rand_ts(rng, datetime_safe=False)
    ctx.evaluation()
    for e in '<>':
        # every chunk holds different values (a chunk that aliases a later one must show)
        blocks = [pairs, pairs[::-1], [(s_ ^ 1, f_ ^ 1) for s_, f_ in pairs]] if case['s'] % 2 else [pairs] * 3
        served = []

        def vf(p, t, k):
            served.append(blocks[len(served) % 3])
            return served[-1]
        segs = M.build_file(rng, [('g', 'ts', 'ts', n, [('stamp', 'ts', prop)])], nseg=2, nchunks=(1, 2), endian=e, values_fn=vf)
        blob = M.encode_file(segs)[0]
        want = [x for b in served for x in b]
        for mode in ('eager', 'lazy'):
            tf = (TdmsFile.read if mode == 'eager' else TdmsFile.open)(io.BytesIO(blob), raw_timestamps=True)
            got = tf['g']['ts'][:]
            ctx.count('raw_pairs_bit_exact', len(want))
            if C.image(got) != ('ts', [(int(s), int(f)) for s, f in want]):
                ctx.violation('raw-pairs/read/%s' % ('big-endian' if e == '>' else 'little-endian'), {'mode': mode, 'got': C.short(C.image(got)), 'want': want[:4]})
            p = tf['g']['ts'].properties['stamp']
            if (int(p.seconds), int(p.second_fractions)) != prop:
                ctx.violation('raw-pairs/property-read', {'got': repr(p), 'want': prop})
            # scalar and streaming access paths
            chx = tf['g']['ts']
            wl = [(int(s), int(f)) for s, f in want]
            try:
                one = [chx[i] for i in (0, len(wl) - 1, len(wl) // 2)]
                if [(int(x.seconds), int(x.second_fractions)) for x in one] != [wl[0], wl[-1], wl[len(wl) // 2]]:
                    ctx.violation('raw-pairs/scalar-index/%s/%s' % (mode, 'big-endian' if e == '>' else 'little-endian'), {'got': [repr(x) for x in one], 'want': [wl[0], wl[-1]]})
                it = [(int(x.seconds), int(x.second_fractions)) for x in chx]
                if it != wl:
                    ctx.violation('raw-pairs/iteration/%s/%s' % (mode, 'big-endian' if e == '>' else 'little-endian'), {'got': it[:3], 'want': wl[:3]})
                if mode == 'lazy':
                    acc = []
                    for chunk in chx.data_chunks():
                        acc += [(int(chunk[i].seconds), int(chunk[i].second_fractions)) for i in range(len(chunk))]
                    if acc != wl:
                        ctx.violation('raw-pairs/chunk-items/%s' % ('big-endian' if e == '>' else 'little-endian'), {'got': acc[:3], 'want': wl[:3]})
                ctx.count('raw_scalar_paths')
            except Exception as ex:
                ctx.violation('raw-pairs/scalar-access-raises/%s' % util.exc_key(ex), {'mode': mode, 'endian': e})
            # read -> write: the arrays the reader hands out (whole channel, slices, chunks) are written again as channel data
            pieces = {'whole': [chx[:]], 'slices': [chx[:len(wl) // 2], chx[len(wl) // 2:]]}
            if mode == 'lazy':
                pieces['chunks'] = [chunk[:] for chunk in chx.data_chunks()]
                pieces['file-chunks'] = [chunk['g']['ts'][:] for chunk in tf.data_chunks()]
            for kind, arrs in pieces.items():
                try:
                    out = io.BytesIO()
                    with TdmsWriter(out) as w:
                        for a in arrs:
                            if len(a):
                                w.write_segment([ChannelObject('g', 'ts', a)])
                    back = TdmsFile.read(io.BytesIO(out.getvalue()), raw_timestamps=True)['g']['ts'][:]
                    ctx.count('raw_rewritten')
                    if C.image(back) != ('ts', wl):
                        ctx.violation('raw-pairs/rewrite-of-read-arrays/%s/%s' % (kind, 'big-endian' if e == '>' else 'little-endian'),
                                      {'mode': mode, 'got': C.short(C.image(back)), 'want': wl[:4]})
                except Exception as ex:
                    ctx.violation('raw-pairs/rewrite-raises/%s/%s' % (kind, util.exc_key(ex)), {'mode': mode, 'endian': e})
            tf.close()
        # defragment keeps them bit exact
        out = io.BytesIO()
        TdmsWriter.defragment(io.BytesIO(blob), out)
        tf = TdmsFile.read(io.BytesIO(out.getvalue()), raw_timestamps=True)
        ctx.count('defragment_raw')
        if C.image(tf['g']['ts'][:]) != ('ts', [(int(s), int(f)) for s, f in want]):
            ctx.violation('raw-pairs/defragment-data', {'endian': e})
        p = tf['g']['ts'].properties['stamp']
        if (int(p.seconds), int(p.second_fractions)) != prop:
            ctx.violation('raw-pairs/defragment-property', {'got': repr(p), 'want': prop})
    # write TimestampArray objects built by the caller: both field orders, both byte orders, and via TimeStamp.from_bytes
    from nptdms.timestamp import TimestampArray
    from nptdms.types import TimeStamp
    wl0 = [(int(s_), int(f_)) for s_, f_ in pairs]
    built = {}
    for bo in '<>':
        for names in (('seconds', 'second_fractions'), ('second_fractions', 'seconds')):
            a_ = np.zeros(len(pairs), dtype=[(nm, bo + ('i8' if nm == 'seconds' else 'u8')) for nm in names])
            a_['seconds'] = [p_[0] for p_ in pairs]
            a_['second_fractions'] = [p_[1] for p_ in pairs]
            built['%s/%s-first' % ('big-endian' if bo == '>' else 'little-endian', names[0])] = TimestampArray(a_)
    be_bytes = b''.join(struct.pack('>qQ', s_, f_) for s_, f_ in pairs)
    built['from_bytes/big-endian'] = TimeStamp.from_bytes(np.frombuffer(be_bytes, dtype='u1'), '>')
    le_bytes = b''.join(struct.pack('<Qq', f_, s_) for s_, f_ in pairs)
    built['from_bytes/little-endian'] = TimeStamp.from_bytes(np.frombuffer(le_bytes, dtype='u1'), '<')
    for kind_, arr_ in built.items():
        try:
            out = io.BytesIO()
            before_ = arr_.tobytes()
            with TdmsWriter(out) as w:
                # the same array object is the data of two channels, and of a further segment
                w.write_segment([ChannelObject('g', 'ts', arr_), ChannelObject('g', 'ts2', arr_)])
                w.write_segment([ChannelObject('g', 'ts3', arr_)])
            tfb = TdmsFile.read(io.BytesIO(out.getvalue()), raw_timestamps=True)
            ctx.count('caller_built_timestamp_arrays_written')
            for cn_ in ('ts', 'ts2', 'ts3'):
                back = tfb['g'][cn_][:]
                if C.image(back) != ('ts', wl0):
                    ctx.violation('raw-pairs/write-of-caller-built-array/%s%s' % (kind_, '' if cn_ == 'ts' else '/second-use-of-the-same-array'),
                                  {'channel': cn_, 'got': C.short(C.image(back)), 'want': wl0[:4]})
                    break
            if arr_.tobytes() != before_:
                ctx.violation('raw-pairs/writer-modified-the-callers-array/%s' % kind_, {})
        except Exception as ex:
            ctx.violation('raw-pairs/write-of-caller-built-array-raises/%s/%s' % (kind_, util.exc_key(ex)), {'exc': util.exc_detail(ex)})
    # write raw TdmsTimestamp objects; every other case the objects are created first and set afterwards (a corrected clock)
    def make_ts(s_, f_):
        if case['s'] % 2:
            t_ = TdmsTimestamp(0, 0)
            t_.seconds, t_.second_fractions = s_, f_
            return t_
        return TdmsTimestamp(s_, f_)
    buf = io.BytesIO()
    with TdmsWriter(buf) as w:
        w.write_segment([RootObject({'stamp': make_ts(*prop)}), ChannelObject('g', 'ts', [make_ts(s, f) for s, f in pairs])])
    tf = TdmsFile.read(io.BytesIO(buf.getvalue()), raw_timestamps=True)
    if C.image(tf['g']['ts'][:]) != ('ts', [(int(s), int(f)) for s, f in pairs]):
        ctx.violation('raw-pairs/write', {'want': pairs[:4], 'got': C.short(C.image(tf['g']['ts'][:]))})
    p = tf.properties['stamp']
    if (int(p.seconds), int(p.second_fractions)) != prop:
        ctx.violation('raw-pairs/write-property', {'got': repr(p), 'want': prop})
    ctx.distinct(('raw', n, tuple(pairs[:1])))
    ctx.sample({'case': case, 'pairs': pairs[:3]}, limit=1)


# ------------------------------------------------------------------ (d) conversions within one unit, monotone, scalar == array
UNITS = {'s': 1, 'ms': 10 ** 3, 'us': 10 ** 6, 'ns': 10 ** 9}


def adversarial_fractions(rng, unit):
    U = UNITS[unit]
    out = [0, 1, 2 ** 64 - 1, 2 ** 63, 2 ** 53, 2 ** 53 + 1, 2 ** 64 - 2 ** 10, 2 ** 64 - 2 ** 11 - 1]
    for _ in range(40):
        k = rng.randrange(U)
        edge = -((-k * 2 ** 64) // U)          # first fraction at or after k units
        out += [max(0, min(2 ** 64 - 1, edge + d)) for d in (-2048, -1, 0, 1, 2048, rng.randrange(-10 ** 6, 10 ** 6))]
    out += [rng.randrange(2 ** 64) for _ in range(30)]
    return out


def conversions(case, ctx):
    from nptdms.timestamp import TdmsTimestamp, TimestampArray
    rng = random.Random('c12c/%d' % case['s'])
    unit = ['s', 'ms', 'us', 'ns'][case['s'] % 4]
    U = UNITS[unit]
    secs = [0, -1, 1, 3600000000, -2082844800, rng.randrange(-6 * 10 ** 9, 9 * 10 ** 9)]
    pairs = sorted({(s, f) for s in secs for f in adversarial_fractions(rng, unit)})
    arr = np.zeros(len(pairs), dtype=[('second_fractions', '<u8'), ('seconds', '<i8')])
    arr['seconds'] = [p[0] for p in pairs]
    arr['second_fractions'] = [p[1] for p in pairs]
    ta = TimestampArray(arr)
    conv = ta.as_datetime64(unit)
    epoch = np.datetime64('1904-01-01T00:00:00', unit)
    # arrays derived from an already converted array convert to THEIR elements
    for name, sub, want in (('slice', ta[2:7], conv[2:7]), ('reversed', ta[::-1], conv[::-1]), ('copy', ta[1:4].copy(), conv[1:4])):
        got = sub.as_datetime64(unit)
        ctx.count('derived_array_conversions')
        if len(got) != len(want) or (got != want).any():
            ctx.violation('conversion-of-derived-array/%s' % name, {'unit': unit, 'got': [str(x) for x in got[:4]], 'want': [str(x) for x in want[:4]]})
    other = {'s': 'ms', 'ms': 'us', 'us': 'ns', 'ns': 'us'}[unit]
    if (ta.as_datetime64(other) != np.array([TdmsTimestamp(s_, f_).as_datetime64(other) for s_, f_ in pairs[:len(ta)]])).any():
        ctx.violation('conversion-after-other-resolution', {'first': unit, 'then': other})
    prev = None
    for i, (s, f) in enumerate(pairs):
        ctx.evaluation()
        ctx.count('conversions_checked')
        got_units = int((conv[i] - epoch).astype('m8[%s]' % unit).astype('int64'))
        exact = Fraction(s * U) + Fraction(f * U, 2 ** 64)
        err = Fraction(got_units) - exact
        if abs(err) > 1 + Fraction(1, 10 ** 6):
            ctx.violation('conversion-error-above-one-unit/%s' % unit, {'seconds': s, 'fractions': f, 'converted': str(conv[i]), 'error_units': float(err)})
        if prev is not None:
            ctx.count('monotone_pairs')
            if conv[i] < prev:
                ctx.violation('conversion-not-monotone/%s' % unit, {'pair': (s, f), 'converted': str(conv[i]), 'previous': str(prev)})
        prev = conv[i]
        sc = TdmsTimestamp(s, f).as_datetime64(unit)
        ctx.count('scalar_vs_array')
        if sc != conv[i]:
            ctx.violation('scalar-differs-from-array/%s' % unit, {'pair': (s, f), 'scalar': str(sc), 'array': str(conv[i])})
        if f and i % 97 == 0:
            ctx.distinct((unit, s, f))      # a sample of the pairs: keeps the signature set bounded
    ctx.sample({'case': case, 'unit': unit, 'pairs': pairs[:4]}, limit=1)


# ------------------------------------------------------------------ (e) time_track
def time_track(case, ctx):
    from nptdms import TdmsFile
    rng = random.Random('c12t/%d' % case['s'])
    n = rng.choice([0, 1, 2, 7, 100])
    offset = rng.choice([0.0, 1.5, -2.25, rng.uniform(-1e3, 1e3), 1e-6])
    inc = rng.choice([1.0, 1e-3, 1e-6, 0.1, rng.uniform(1e-9, 10.0), -0.5])
    far = rng.random() < 0.25          # outside datetime64[ns]'s span (1678..2262): only the coarser accuracies apply
    secs0 = rng.choice([-12_700_000_000, 15_600_000_000]) if far else rng.randrange(-2 * 10 ** 9, 4 * 10 ** 9)
    unit0 = rng.choice(['s', 'ms', 'us', 'ns'])
    start = (secs0, rng.choice(adversarial_fractions(rng, unit0)) if rng.random() < 0.7 else rng.randrange(2 ** 64))
    props = [('wf_start_offset', 'f64', offset), ('wf_increment', 'f64', inc), ('wf_start_time', 'ts', start), ('wf_samples', 'i32', n)]
    segs = M.build_file(rng, [('g', 'c', 'f64', n, props)], nseg=1, nchunks=(1,))
    blob = M.encode_file(segs)[0]
    ctx.evaluation()
    for raw_ts in (False, True):
        tf = TdmsFile.read(io.BytesIO(blob), raw_timestamps=raw_ts)
        ch = tf['g']['c']
        ctx.count('time_tracks')
        rel = ch.time_track()
        info = {'n': n, 'offset': offset, 'increment': inc, 'start': start, 'raw_timestamps': raw_ts}
        if len(rel) != len(ch) or len(ch) != n:
            ctx.violation('time_track/length', dict(info, got=len(rel)))
            continue
        if n:
            if rel[0] != offset:
                ctx.violation('time_track/first-point', dict(info, got=float(rel[0])))
            tol = 8 * np.finfo('f8').eps * (abs(offset) + abs(n * inc))
            want = offset + np.arange(n) * inc
            if np.abs(rel - want).max() > tol:
                k = int(np.abs(rel - want).argmax())
                ctx.violation('time_track/spacing', dict(info, k=k, got=float(rel[k]), want=float(want[k])))
        for acc in (('s', 'ms', 'us') if far else ('s', 'ms', 'us', 'ns')):
            U = UNITS[acc]
            try:
                ab = ch.time_track(absolute_time=True, accuracy=acc)
            except Exception as ex:
                ctx.violation('time_track/absolute-raises/%s' % util.exc_key(ex), dict(info, accuracy=acc))
                continue
            if len(ab) != n:
                ctx.violation('time_track/absolute-length', dict(info, accuracy=acc))
                continue
            st = ch.properties['wf_start_time']
            st64 = st.as_datetime64(acc) if raw_ts else st
            # absolute = (start time at the requested accuracy) + (relative offsets truncated to that accuracy)
            for k in ([0, n - 1, n // 2] if n else []):
                exact_units = Fraction(float(rel[k])) * U
                trunc = int(exact_units)            # toward zero
                got_units = Fraction(int((ab[k] - st64).astype('m8[ns]').astype('int64')) * U, 10 ** 9)
                ctx.count('time_track_exact_points')
                near_integer = abs(exact_units - round(exact_units)) < Fraction(1, 10 ** 6) * max(1, abs(exact_units))
                if got_units != trunc and not (near_integer and abs(got_units - trunc) <= 1):
                    ctx.violation('time_track/absolute-is-not-start-plus-truncated-offset/%s' % acc,
                                  dict(info, k=k, start=str(st64), got=str(ab[k]), offset_units=float(exact_units)))
            for k in ([0, n - 1, n // 2] if n else []):
                exact_off = (Fraction(offset) + k * Fraction(inc)) * U
                got_off = Fraction(int((ab[k] - st64).astype('m8[ns]').astype('int64')) * U, 10 ** 9)
                if abs(got_off - exact_off) > 1 + abs(exact_off) * Fraction(1, 10 ** 12) + Fraction(1, 10 ** 3):
                    ctx.violation('time_track/absolute-offset/%s' % acc, dict(info, k=k, got_units=float(got_off), exact_units=float(exact_off)))
    ctx.distinct(('track', n, offset, inc))


def evidence_extra(merged, tier):
    return {'exhaustive_core': {'microsecond_values_per_seconds_value': 10 ** 6, 'seconds_values': SECONDS[tier],
                                'note': 'all 10^6 sub-second microsecond values enumerated for each listed seconds value, scalar and array path'}}
