#!/venv/bin/python
"""Regenerates MANIFEST.json from the check modules present in checks/ (run from /verif)."""
import importlib
import json
import os
import sys

sys.path.insert(0, os.path.dirname(os.path.dirname(os.path.abspath(__file__))))
from vlib import runner
runner.setup_paths()

props = [json.loads(l) for l in open('properties.jsonl')]
checks, na = [], []
for p in props:
    pid = p['id']
    path = 'checks/%s.py' % pid.lower()
    if not os.path.exists(path):
        na.append({'property_id': pid, 'reason': 'check not built yet in this round (runtime monitoring applies; see DESIGN.md section 3)'})
        continue
    mod = importlib.import_module('checks.' + pid.lower())
    checks.append({
        'property_id': pid,
        'quick_cmd': './check %s --tier quick' % pid,
        'thorough_cmd': './check %s --tier thorough' % pid,
        'evidence_file': 'evidence/%s.json' % pid,
        'replay_cmd_template': './check %s --replay {path}' % pid,
        'engine': 'vlib.runner',
        'level_claimed': {'category': mod.LEVEL, 'text': mod.LEVEL_TEXT, 'design_ref': 'DESIGN.md section 3 (%s)' % pid},
        'level_note': mod.LEVEL_NOTE,
        'technique': mod.TECHNIQUE,
    })
manifest = {
    'version': 1,
    'setup_cmd': './setup.sh',
    'hooks': {
        'guard': 'NPTDMS_VERIF',
        'enable': 'no source hooks: monitors attach from the harness (streams passed in, audit hook, in-place decoration); '
                  './check exports NPTDMS_VERIF=1 for forward compatibility only',
        'baseline_off_cmd': 'cd /repo && env -u NPTDMS_VERIF /venv/bin/python -m pytest -ra -q -p no:cacheprovider --timeout=900',
        'source_commits': [],
        'add_only': True,
    },
    'engines': [{'name': 'vlib.runner', 'path': 'vlib/runner.py', 'serves_properties': [c['property_id'] for c in checks],
                 'kind_free_text': 'sharded runtime-monitoring harness: executes /repo working tree under reference-model, '
                                   'trace, descriptor and contract monitors; three-valued verdicts; known-findings classification'}],
    'checks': checks,
    'not_applicable': na,
    'notes': 'All checks execute the real code in /repo (or $VERIF_REPO) under monitors; exit 0 held, 1 violation, 2 inconclusive.',
}
json.dump(manifest, open('MANIFEST.json', 'w'), indent=1)
open('MANIFEST.json', 'a').write('\n')
import jsonschema
jsonschema.validate(manifest, json.load(open('/root/.vp/MANIFEST.schema.json')))
print('MANIFEST ok: %d checks, %d not yet' % (len(checks), len(na)))
