"""pytest plugin: runs the repository's own test suite with the harness contracts switched on
(usage: cd /repo && PYTHONPATH=/verif:/verif/.deps /venv/bin/python -m pytest -p tools.contracts_plugin -q -p no:cacheprovider)"""
from vlib import contracts


def pytest_configure(config):
    contracts.install()


def pytest_terminal_summary(terminalreporter):
    terminalreporter.write_line('contract evaluations: %s' % dict(contracts.EVALS))
