#!/venv/bin/python
"""Verify sub-agent seeds (/tmp/wt-out/<ID>/patch<i>.diff + demo<i>.py + meta<i>.json) in a scratch worktree and keep the
confirmed ones as /verif/seeded/<id>-<i>/ (patch.diff, demo.py, meta.json)."""
import json, os, shutil, subprocess, sys, tempfile
VERIF = os.path.dirname(os.path.dirname(os.path.abspath(__file__)))
SRC = os.environ.get('SEED_SRC', '/tmp/wt-out')
TAG = os.environ.get('SEED_TAG', '')          # e.g. 'r2' -> seeded/c01-r2-1
ids = sys.argv[1:] or sorted(os.listdir(SRC))
scratch = tempfile.mkdtemp(prefix='nptdms-seedverify-', dir='/tmp')
wt = os.path.join(scratch, 'repo')
subprocess.run(['git', '-C', '/repo', 'worktree', 'add', '-q', '--detach', wt, 'HEAD'], check=True)
def sh(cmd, **kw): return subprocess.run(cmd, capture_output=True, text=True, **kw)
try:
    for pid in ids:
        for i in (1, 2, 3):
            src = '%s/%s' % (SRC, pid)
            patch, demo, meta = ('%s/%s%d.%s' % (src, n, i, e) for n, e in (('patch', 'diff'), ('demo', 'py'), ('meta', 'json')))
            if not (os.path.exists(patch) and os.path.exists(demo)):
                continue
            name = '%s-%s%d' % (pid.lower(), (TAG + '-') if TAG else '', i)
            sh(['git', '-C', wt, 'checkout', '--', '.'])
            env = dict(os.environ, PYTHONPATH=wt, PYTHONDONTWRITEBYTECODE='1')
            clean = sh(['/venv/bin/python', demo], cwd=wt, env=env)
            a = sh(['git', '-C', wt, 'apply', patch])
            if a.returncode:
                print(name, 'PATCH DOES NOT APPLY', a.stderr[:200]); continue
            suite = sh(['/venv/bin/python', '-m', 'pytest', '-q', '-p', 'no:cacheprovider', '-n', '8', '-x'], cwd=wt, env=env)
            broken = sh(['/venv/bin/python', demo], cwd=wt, env=env)
            ok = clean.returncode == 0 and suite.returncode == 0 and broken.returncode != 0
            print('%-10s demo_clean=%d suite=%d demo_patched=%d -> %s' % (name, clean.returncode, suite.returncode, broken.returncode, 'KEEP' if ok else 'REJECT'))
            if not ok:
                continue
            dst = os.path.join(VERIF, 'seeded', name)
            os.makedirs(dst, exist_ok=True)
            shutil.copy(patch, os.path.join(dst, 'patch.diff'))
            shutil.copy(demo, os.path.join(dst, 'demo.py'))
            m = json.load(open(meta)) if os.path.exists(meta) else {}
            out = {'property': pid, 'breaks': m.get('summary', ''), 'needs_to_manifest': m.get('needs_to_manifest', ''),
                   'files_changed': m.get('files_changed', []), 'origin': 'independent sub-agent given only the property text and a scratch worktree',
                   'confirmed': {'suite_passes_with_patch': True, 'demo_passes_on_clean_tree': True, 'demo_fails_with_patch': True,
                                 'how': 'tools/import_seeds.py: scratch worktree of /repo HEAD under /tmp, pytest -n 8 -x, demo run with PYTHONPATH=<worktree>'}}
            json.dump(out, open(os.path.join(dst, 'meta.json'), 'w'), indent=1)
finally:
    sh(['git', '-C', '/repo', 'worktree', 'remove', '--force', wt])
    shutil.rmtree(scratch, ignore_errors=True)
