import subprocess, os, json
WT='/tmp/wt/self'
MUT=[
 # name, property, file, old, new, note
 ('c01-first-value-wins-properties','C01','nptdms/reader.py',"                    object_metadata.properties[prop] = val","                    object_metadata.properties.setdefault(prop, val)","property keeps the first value written instead of the last"),
 ('c01-interleaved-byte-columns','C01','nptdms/tdms_segment.py',"            data_pos += obj.data_type.size\n\n        return RawDataChunk.channel_data(channel_data)","            data_pos += max(obj.data_type.size, 2)\n\n        return RawDataChunk.channel_data(channel_data)","interleaved column offset wrong after a 1-byte channel"),
 ('c01-string-offsets','C01','nptdms/types.py',"            s = file.read(offsets[i + 1] - offsets[i])","            s = file.read(max(offsets[i + 1] - offsets[i], 1) if i == 0 and number_values > 3 else offsets[i + 1] - offsets[i])","string chunk with >3 values and an empty first string reads one byte too many"),
 ('c02-inplace-has-data-flip','C02','nptdms/tdms_segment.py',"            if existing_object.has_data:\n                new_obj = copy(existing_object)\n                new_obj.has_data = False\n                self.ordered_objects[existing_object_index] = new_obj","            if existing_object.has_data:\n                existing_object.has_data = False","no-data header mutates the shared object of the previous segment in place"),
 ('c02-index-cache-ignores-order','C02','nptdms/tdms_segment.py',"        return len(self.objects) == len(other.objects) and all(\n            oa.path == ob.path for (oa, ob) in zip(self.objects, other.objects))","        return len(self.objects) == len(other.objects) and (\n            set(o.path for o in self.objects) == set(o.path for o in other.objects))","object-list cache key ignores order"),
 ('c02-type-change-accepted','C02','nptdms/reader.py',"    if obj.data_type is not None and obj.data_type != segment_object.data_type:","    if obj.data_type is not None and segment_object.data_type is not None and obj.data_type.size != segment_object.data_type.size:","type change between equally sized types no longer rejected"),
 ('c03-iter-raw-instead-of-scaled','C03','nptdms/tdms.py',"        if self._raw_data is not None:\n            return iter(self.data)","        if self._raw_data is not None:\n            return iter(self._raw_data.data if self._raw_data.data is not None else self.data)","eager iteration yields raw instead of scaled values"),
 ('c03-file-chunk-offsets','C03','nptdms/tdms.py',"                channel_offsets[path] += len(data)","                channel_offsets[path] = len(data)","file-level chunk offsets are not cumulative"),
 ('c04-searchsorted-side','C04','nptdms/reader.py',"        end_segment = first_segment + np.searchsorted(segment_offsets, end_index, side='left')","        end_segment = first_segment + np.searchsorted(segment_offsets, end_index, side='right')","window ending exactly on a segment boundary reads on"),
 ('c04-negative-step-bounds','C04','nptdms/tdms.py',"            read_data = self.read_data(stop + 1, start - stop)\n            return read_data[::step]","            read_data = self.read_data(stop + 1, start - stop - (1 if step < -1 and stop < -0 else 0))\n            return read_data[::step]","negative stepped slice down to the beginning drops a value"),
 ('c05-cache-bounds-inclusive','C05','nptdms/tdms.py',"            if bounds[0] <= index < bounds[1]:","            if bounds[0] <= index <= bounds[1]:","one-chunk cache hit test is inclusive at the end"),
 ('c05-dedup-by-length-and-last','C05','nptdms/reader.py',"    if len(a) != len(b):\n        return False\n","    if len(a) != len(b):\n        return False\n    if len(a) and a[-1] == b[-1]:\n        return True\n","offset index de-duplication compares only length and last element"),
 ('c06-contiguous-final-chunk','C06','nptdms/tdms_segment.py',"                    obj_chunk_sizes[obj.path] = chunk_remainder // obj.data_type.size\n                    break","                    obj_chunk_sizes[obj.path] = -(-chunk_remainder // obj.data_type.size)\n                    break","partially written value of a truncated contiguous chunk is counted"),
 ('c06-clamp-removed-marker','C06','nptdms/reader.py',"        if segment_incomplete:\n            if next_segment_pos < data_position:","        if segment_incomplete and next_segment_offset != 0xFFFFFFFFFFFFFFFF:\n            if next_segment_pos < data_position:","marker segment with incomplete metadata is no longer dropped"),
 ('c07-int-boundary','C07','nptdms/writer.py',"    if value >= 2 ** 31 or value < -2 ** 31:","    if value > 2 ** 31 or value < -2 ** 31:","2**31 written as Int32"),
 ('c07-bool-after-int','C07','nptdms/writer.py',"    if isinstance(value, bool) or isinstance(value, np.bool_):\n        return Boolean(value)\n    if isinstance(value, int):\n        return to_int_property_value(value)","    if isinstance(value, int):\n        return to_int_property_value(value)\n    if isinstance(value, bool) or isinstance(value, np.bool_):\n        return Boolean(value)","isinstance tests reordered: Python bools written as Int32"),
 ('c08-groups-to-add-dropped','C08','nptdms/writer.py',"        groups_to_add = sorted(groups_required - groups_included - self._groups_written)","        groups_to_add = sorted(groups_required - groups_included - self._groups_written) if not self._root_written else []","implicit group objects only added in the first segment"),
 ('c08-index-keeps-data-size','C08','nptdms/writer.py',"        next_segment_offset = metadata_size + self._data_size()","        next_segment_offset = metadata_size + (0 if self.is_index_file and not self.objects else self._data_size())","(control) harmless variation"),
 ('c09-seek-translation','C09','nptdms/reader.py',"                        file.seek(start_position + segment.data_position - segment.position, os.SEEK_SET)","                        file.seek(start_position + max(segment.data_position - segment.position, 28 + 4), os.SEEK_SET)","index walk skips too far after a metadata-less segment"),
 ('c09-clamp-against-index-size','C09','nptdms/reader.py',"        if self._file is not None:\n            self._data_file_size = _get_file_size(self._file)","        if self._index_file is not None:\n            self._data_file_size = _get_file_size(self._index_file)\n        elif self._file is not None:\n            self._data_file_size = _get_file_size(self._file)","segment ends clamped against the index file size"),
 ('c10-defragment-scaled','C10','nptdms/writer.py',"                        channel.read_data(scaled=False),","                        channel.read_data(scaled=channel.data_type is not None and channel.data_type.nptype is not None and channel.data_type.nptype.kind == 'f'),","defragment copies scaled data for float channels"),
 ('c10-group-props-dropped','C10','nptdms/writer.py',"                new_file.write_segment([GroupObject(group.name, group.properties)])","                new_file.write_segment([GroupObject(group.name, group.properties if group.channels() else None)])","properties of groups without channels are dropped"),
 ('c11-digital-byte-offset','C11','nptdms/daqmx.py',"        return self.raw_bit_offset // 8","        return self.raw_bit_offset // 8 if self.raw_bit_offset < 16 else self.raw_bit_offset // 8 - 1","digital line byte offset wrong from the third byte on"),
 ('c11-partial-row-counted','C11','nptdms/daqmx.py',"            updated_buffer_lengths[i] = bytes_remaining // width","            updated_buffer_lengths[i] = -(-bytes_remaining // width)","partial row of a truncated DAQmx chunk is counted"),
 ('c12-time-track-length','C12','nptdms/tdms.py',"            offset + (len(self) - 1) * increment,\n            len(self))","            offset + len(self) * increment,\n            len(self))","time_track end point off by one increment"),
 ('c12-big-endian-fields','C12','nptdms/types.py',"            (seconds, second_fractions) = _struct_unpack(\n                 endianness + 'qQ', data)","            (second_fractions, seconds) = _struct_unpack(\n                 endianness + 'Qq', data)","big-endian timestamp property field order"),
 ('c13-inplace-linear','C13','nptdms/scaling.py',"        data = data.astype(np.dtype('float64'), copy=False)\n        return data * self.slope + self.intercept","        data = data.astype(np.dtype('float64'), copy=False)\n        data *= self.slope\n        data += self.intercept\n        return data","in-place linear scaling corrupts float64 raw data"),
 ('c13-subtract-operands','C13','nptdms/scaling.py',"        return right_data - left_data","        return left_data - right_data","subtract operands swapped"),
 ('c13-lookup-order','C13','nptdms/scaling.py',"        for p in [channel_properties, group_properties, file_properties])","        for p in [channel_properties, file_properties, group_properties])","file-level scaling takes precedence over group-level"),
 ('c14-add-dtype','C14','nptdms/scaling.py',"            return np.result_type(\n                self._compute_scale_dtype(scaling.left_input_source, raw_data_type, scaler_data_types),\n                self._compute_scale_dtype(scaling.right_input_source, raw_data_type, scaler_data_types))","            return np.dtype('float64')","Add/Subtract declared float64 regardless of inputs"),
 ('c15-string-endianness','C15','nptdms/types.py',"            offsets.append(Uint32.read(file, endianness))","            offsets.append(Uint32.read(file))","string offset table always read little-endian"),
 ('c15-daqmx-widths-endianness','C15','nptdms/daqmx.py',"            self.raw_data_widths[width_idx] = types.Uint32.read(f, endianness)","            self.raw_data_widths[width_idx] = types.Uint32.read(f)","DAQmx raw data widths always read little-endian"),
 ('c16-quote-scanner','C16','nptdms/common.py',"                if char == \"'\" and next_char == \"'\":\n                    component += \"'\"\n                    # Consume second \"'\"\n                    next(chars)","                if char == \"'\" and next_char == \"'\":\n                    component += \"'\"\n                    # Consume second \"'\"\n                    next(chars)\n                elif char == \"'\" and next_char == \"/\" and not component:\n                    component += \"'\"","empty name followed by separator mis-scanned"),
 ('c17-lead-factor','C17','nptdms/scaling.py',"        return measured_resistance - 2.0 * lead_wire_resistance","        return measured_resistance - lead_wire_resistance","2-wire lead compensation factor"),
 ('c17-half-bridge-sign','C17','nptdms/scaling.py',"            temp += common_factor * (1.0 + self.poisson_ratio)\n            strain = voltage_out\n            strain /= temp","            temp += common_factor * (1.0 - self.poisson_ratio)\n            strain = voltage_out\n            strain /= temp","half bridge I sign of Poisson term"),
 ('c18-coefficient-digit','C18','nptdms/thermocouples.py',"                -0.246508183460E-03,","                -0.246508183470E-03,","one digit of a type B coefficient"),
 ('c18-direction-factor','C18','nptdms/scaling.py',"            milli_volts = data / 1000.0","            milli_volts = data / 100.0 if self.thermocouple is thermocouples.type_t else data / 1000.0","microvolt factor wrong for one type"),
 ('c19-read-all-chunks','C19','nptdms/reader.py',"                num_chunks -= num_values_to_trim // chunk_size\n","                num_chunks -= 0\n","trailing chunks read and trimmed afterwards"),
 ('c19-cache-never-hit','C19','nptdms/tdms.py',"        if self._cached_chunk is not None:\n            # Check","        if self._cached_chunk is not None and False:\n            # Check","chunk cache never used"),
 ('c20-finally-removed','C20','nptdms/tdms.py',"        finally:\n            if not keep_open:\n                self._reader.close()","        else:\n            if not keep_open:\n                self._reader.close()","files left open when reading raises"),
 ('c20-close-closes-caller-stream','C20','nptdms/reader.py',"        if self._file_path is not None:\n            # File path was provided so we opened the file and should close it.\n            self._file.close()","        if self._file is not None:\n            self._file.close()","caller streams closed"),
 ('c20-ensure-open-removed','C20','nptdms/tdms.py',"        bounds = self._cached_chunk_bounds\n            if bounds[0] <= index < bounds[1]:","        bounds = self._cached_chunk_bounds\n            if bounds[0] <= index < bounds[1] or self._reader._file is None:","stale cached value returned after close"),
]
os.makedirs('/verif/mutants',exist_ok=True)
meta={}
for name,prop,f,old,new,note in MUT:
    p=os.path.join(WT,f); s=open(p).read()
    if s.count(old)!=1:
        print('SKIP (pattern count %d): %s'%(s.count(old),name)); continue
    open(p,'w').write(s.replace(old,new))
    d=subprocess.run(['git','-C',WT,'diff'],capture_output=True,text=True).stdout
    r=subprocess.run(['/venv/bin/python','-c','import nptdms'],cwd=WT,capture_output=True,text=True)
    subprocess.run(['git','-C',WT,'checkout','--','.'])
    if r.returncode: print('IMPORT FAIL',name,r.stderr[-300:]); continue
    open('/verif/mutants/%s.patch'%name,'w').write(d)
    meta[name]={'property':prop,'note':note,'file':f}
meta['c08-index-keeps-data-size']['control']=True
meta['c07-int-boundary']['note']+=' (struct refuses the value: the call is not accepted, so no property violation; control)'
meta['c07-int-boundary']['control']=True
json.dump(meta,open('/verif/mutants/index.json','w'),indent=1,sort_keys=True)
print(len(meta),'mutants written')
MUT2=[('c20-finally-removed','C20','nptdms/tdms.py',"        finally:\n            if not keep_open:\n                self._reader.close()","        except EOFError:\n            raise\n        else:\n            if not keep_open:\n                self._reader.close()","files left open when reading raises"),
 ('c05-window-aliases-cache','C05','nptdms/tdms.py',"        if self._raw_data is None:\n            raw_data = self._read_channel_data(offset, length)","        if self._raw_data is None:\n            if scaled and self._cached_chunk is not None and length is not None and isinstance(self._cached_chunk, np.ndarray):\n                (chunk_start, chunk_end) = self._cached_chunk_bounds\n                if chunk_start <= offset and offset + length <= chunk_end and length > 0:\n                    return self._cached_chunk[offset - chunk_start:offset - chunk_start + length]\n            raw_data = self._read_channel_data(offset, length)","windows inside the chunk cached by an integer lookup are returned as views of that cache (right values; the caller's array aliases library state)"),
]
meta=json.load(open('/verif/mutants/index.json'))
for name,prop,f,old,new,note in MUT2:
    p=os.path.join(WT,f); s=open(p).read()
    assert s.count(old)==1
    open(p,'w').write(s.replace(old,new))
    d=subprocess.run(['git','-C',WT,'diff'],capture_output=True,text=True).stdout
    r=subprocess.run(['/venv/bin/python','-c','import nptdms'],cwd=WT,capture_output=True,text=True)
    subprocess.run(['git','-C',WT,'checkout','--','.'])
    assert r.returncode==0, r.stderr
    open('/verif/mutants/%s.patch'%name,'w').write(d)
    meta[name]={'property':prop,'note':note,'file':f}
json.dump(meta,open('/verif/mutants/index.json','w'),indent=1,sort_keys=True)
print(len(meta))
