#!/usr/bin/env python3
"""For every 'fix:' commit in /repo build the mutant that takes the fix out again (git revert --no-commit in a scratch
worktree under /tmp) and store it as mutants/fixrev-<n>-<property>.patch. A fixed entry in known_findings.json suppresses
nothing, so the check of that property must report the violation again when the defect returns: tools/selftest.py runs them
like every other mutant."""
import json, os, subprocess, sys, tempfile, shutil

VERIF = os.path.dirname(os.path.dirname(os.path.abspath(__file__)))


def sh(cmd, **kw):
    return subprocess.run(cmd, capture_output=True, text=True, **kw)


def main():
    kf = json.load(open(os.path.join(VERIF, 'known_findings.json')))
    entries = [e for v in kf.values() if isinstance(v, list) for e in v if e.get('status') == 'fixed']
    by_subject = {e['commit']: e for e in entries}
    log = sh(['git', '-C', '/repo', 'log', '--format=%H %s']).stdout.splitlines()
    fixes = [(l.split(' ', 1)[0], l.split(' ', 1)[1]) for l in log if l.split(' ', 1)[1].startswith('fix:')]
    fixes.reverse()
    scratch = tempfile.mkdtemp(prefix='nptdms-fixrev-', dir='/tmp')
    wt = os.path.join(scratch, 'repo')
    sh(['git', '-C', '/repo', 'worktree', 'add', '--detach', wt, 'HEAD'])
    idxp = os.path.join(VERIF, 'mutants', 'index.json')
    meta = json.load(open(idxp))
    try:
        for n, (h, subj) in enumerate(fixes, 1):
            e = by_subject.get(subj)
            prop = e['property'] if e else None
            if prop is None:
                print('no known_findings entry for', subj)
                continue
            sh(['git', '-C', wt, 'checkout', '--', '.'])
            sh(['git', '-C', wt, 'reset', '--hard', '-q', 'HEAD'])
            r = sh(['git', '-C', wt, 'revert', '--no-commit', h])
            if r.returncode:
                sh(['git', '-C', wt, 'revert', '--abort'])
                sh(['git', '-C', wt, 'reset', '--hard', '-q', 'HEAD'])
                print('fixrev-%02d %s: revert conflicts with later fixes, skipped (%s)' % (n, prop, subj))
                continue
            d = sh(['git', '-C', wt, 'diff', 'HEAD']).stdout
            sh(['git', '-C', wt, 'reset', '--hard', '-q', 'HEAD'])
            name = 'fixrev-%02d-%s' % (n, prop.lower())
            open(os.path.join(VERIF, 'mutants', name + '.patch'), 'w').write(d)
            prev = meta.get(name, {})
            meta[name] = {'property': prop, 'note': prev.get('note') or ('takes out again: ' + subj), 'file': 'nptdms', 'reverts_fix': h[:7]}
            if prev.get('also'):
                meta[name]['also'] = prev['also']
            print(name, 'written')
    finally:
        sh(['git', '-C', '/repo', 'worktree', 'remove', '--force', wt])
        shutil.rmtree(scratch, ignore_errors=True)
    json.dump(meta, open(idxp, 'w'), indent=1, sort_keys=True)


if __name__ == '__main__':
    main()
