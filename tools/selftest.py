#!/venv/bin/python
"""Mutation self-test: applies each patch in mutants/ (and seeded/<id>/patch.diff) to a scratch worktree of /repo made
OUTSIDE /repo and /verif, runs the repository's own test suite there (a realistic mutant keeps it green) and then the
check(s) of the targeted property with VERIF_REPO pointing at the scratch tree.  Prints one line per mutant and writes
mutants/RESULTS.json.  The unchanged tree must be silent; a mutant counts as caught when its check exits 1.

usage: tools/selftest.py [--only substr] [--tier quick] [--all-checks] [--no-suite]"""
import argparse
import json
import os
import shutil
import subprocess
import sys
import tempfile
import time

VERIF = os.path.dirname(os.path.dirname(os.path.abspath(__file__)))


def sh(cmd, **kw):
    return subprocess.run(cmd, capture_output=True, text=True, **kw)


def main():
    ap = argparse.ArgumentParser()
    ap.add_argument('--only', default='')
    ap.add_argument('--tier', default='quick')
    ap.add_argument('--all-checks', action='store_true', help='run every check against every mutant')
    ap.add_argument('--no-suite', action='store_true')
    ap.add_argument('--seed', default='0')
    args = ap.parse_args()
    items = []
    idx = json.load(open(os.path.join(VERIF, 'mutants', 'index.json')))
    for name, m in sorted(idx.items()):
        items.append((name, os.path.join(VERIF, 'mutants', name + '.patch'), m['property'], m.get('also', [])))
    sd = os.path.join(VERIF, 'seeded')
    if os.path.isdir(sd):
        for d in sorted(os.listdir(sd)):
            mp = os.path.join(sd, d, 'meta.json')
            if os.path.exists(mp):
                m = json.load(open(mp))
                if m.get('obsolete'):
                    print('%-48s OBSOLETE (no longer breaks the property on the repaired tree, see meta.json)' % ('seeded/' + d))
                    continue
                items.append(('seeded/' + d, os.path.join(sd, d, 'patch.diff'), m['property'], m.get('also', [])))
    items = [i for i in items if args.only in i[0]]
    scratch = tempfile.mkdtemp(prefix='nptdms-selftest-', dir='/tmp')
    wt = os.path.join(scratch, 'repo')
    r = sh(['git', '-C', '/repo', 'worktree', 'add', '--detach', wt, 'HEAD'])
    if r.returncode:
        print(r.stderr)
        return 2
    results = {}
    resfile = os.path.join(VERIF, 'mutants', 'RESULTS.json')
    if os.path.exists(resfile) and args.only:
        results = json.load(open(resfile))
    try:
        for name, patch, prop, also in items:
            sh(['git', '-C', wt, 'checkout', '--', '.'])
            a = sh(['git', '-C', wt, 'apply', patch])
            if a.returncode:
                print('%-48s PATCH DOES NOT APPLY: %s' % (name, a.stderr.strip()[:120]))
                results[name] = {'property': prop, 'applies': False}
                continue
            suite = None
            if not args.no_suite:
                t = sh(['/venv/bin/python', '-m', 'pytest', '-q', '-p', 'no:cacheprovider', '-n', '8', '-x'], cwd=wt,
                       env=dict(os.environ, PYTHONDONTWRITEBYTECODE='1'))
                suite = t.returncode == 0
            props = [prop] + list(also)
            if args.all_checks:
                props = ['C%02d' % i for i in range(1, 21)]
            caught = {}
            for p in props:
                t0 = time.time()
                c = sh([os.path.join(VERIF, 'check'), p, '--tier', args.tier], cwd=VERIF,
                       env=dict(os.environ, VERIF_REPO=wt, VERIF_SEED=args.seed))
                mechs = sorted({l.split('mechanism=')[1].split(' ')[0] for l in c.stdout.splitlines() if 'mechanism=' in l})
                has_violation_line = any(l.startswith('VIOLATION property=%s ' % p) for l in c.stdout.splitlines())
                code = c.returncode
                if code == 1 and not has_violation_line:
                    code = 99        # crashed: never counts as caught
                caught[p] = {'exit': code, 'mechanisms': mechs[:6], 'wall_s': round(time.time() - t0, 1)}
            verdict = 'CAUGHT' if caught[prop]['exit'] == 1 else ('caught-by-other' if any(v['exit'] == 1 for v in caught.values()) else 'MISSED')
            results[name] = {'property': prop, 'applies': True, 'suite_passes': suite, 'checks': caught, 'verdict': verdict}
            print('%-48s suite=%s %s %s' % (name, {True: 'pass', False: 'FAIL', None: '-'}[suite], verdict,
                                          ' '.join('%s:%d' % (p, v['exit']) for p, v in caught.items())), flush=True)
            json.dump(results, open(resfile, 'w'), indent=1, sort_keys=True)
    finally:
        sh(['git', '-C', '/repo', 'worktree', 'remove', '--force', wt])
        shutil.rmtree(scratch, ignore_errors=True)
    missed = [n for n, r_ in results.items() if r_.get('verdict') == 'MISSED']
    print('missed: %s' % missed)
    return 0


if __name__ == '__main__':
    sys.exit(main())
