import numpy as np
from nptdms.timestamp import TimestampArray
def fails(sfs):
    arr = np.zeros(10**6, dtype=[('second_fractions','<u8'),('seconds','<i8')]); arr['second_fractions']=np.array(sfs,dtype=np.uint64)
    back = TimestampArray(arr).as_datetime64('us')
    got = (back - np.datetime64('1904-01-01T00:00:00','us')).astype(np.int64)
    return int((got != np.arange(10**6)).sum())
M=10**6
print('exact ceil', fails([-(-u*2**64//M) for u in range(M)]))
print('exact ceil + 2^13', fails([-(-u*2**64//M) + (8192 if u else 0) for u in range(M)]))
print('round(float)', fails([round(u * (2**64/1e6)) for u in range(M)]))
print('ceil(float)+', fails([int(np.ceil(u * (2**64/1e6))) for u in range(M)]))
print('midpoint', fails([(2*u+1)*2**64//(2*M) for u in range(M)]))
