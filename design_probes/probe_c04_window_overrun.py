import io, numpy as np, struct, traceback
from enc import *
from nptdms import TdmsFile
i32 = lambda *v: np.array(v, dtype='<i4').tobytes()
R = TOC['raw']; N = TOC['newobj']
def run(segs, label):
    full = TdmsFile.read(io.BytesIO(segs))['g']['a'][:]
    bad = 0; n=0
    with TdmsFile.open(io.BytesIO(segs)) as f:
        ch = f['g']['a']
        for off in range(0, len(full)+2):
            for ln in list(range(0, len(full)+3)):
                n+=1
                try:
                    got = ch.read_data(off, ln)
                    ok = np.array_equal(got, full[off:off+ln])
                except Exception as ex:
                    got = type(ex).__name__ + ': ' + str(ex); ok = False
                if not ok:
                    bad += 1
                    if bad < 4: print('  MISMATCH', off, ln, got, 'expected', full[off:off+ln])
    print(label, 'bad', bad, 'of', n)
segs = segment([obj('<', "/'g'/'a'", (3,4))], i32(0,1,2,3), R|N)
segs += segment([obj('<', "/'g'/'b'", (3,2))], i32(100,101), R|N)
segs += segment([obj('<', "/'g'/'a'", (3,4))], i32(*range(4,16)), R|N)
run(segs, 'absent-middle')
# string variant
def strdata(strs):
    bs=[x.encode() for x in strs]; offs=np.cumsum([len(b) for b in bs]).astype('<u4').tobytes(); return offs+b''.join(bs)
sd = strdata(['a','b','c','d'])
segs = segment([obj('<', "/'g'/'a'", (0x20,4,len(sd)))], sd, R|N)
segs += segment([obj('<', "/'g'/'b'", (3,2))], i32(100,101), R|N)
segs += segment([obj('<', "/'g'/'a'", (0x20,4,len(sd)))], sd*3, R|N)
run(segs, 'absent-middle-strings')
# has_data False in middle (no new obj list; a listed with no data)
segs = segment([obj('<', "/'g'/'a'", (3,4)), obj('<', "/'g'/'b'", (3,2))], i32(0,1,2,3,100,101), R|N)
segs += segment([obj('<', "/'g'/'a'", None)], i32(100,101), R)
segs += segment([obj('<', "/'g'/'a'", 'same')], i32(*range(4,8),100,101,*range(8,12),100,101), R)
run(segs, 'nodata-middle')
