"""C08 probe: literal parser over writer output + LabVIEW example files"""
import struct, io, sys, glob, os
import numpy as np
SIZES={1:1,2:2,3:4,4:8,5:1,6:2,7:4,8:8,9:4,10:8,0x19:4,0x1A:8,0x21:1,0x44:16,0x08000c:8,0x10000d:16}
class Bad(Exception): pass
def parse(blob, index=False):
    pos=0; segs=[]; known={}
    while pos<len(blob):
        tag=blob[pos:pos+4]
        if tag!=(b'TDSh' if index else b'TDSm'): raise Bad('tag at %d %r'%(pos,tag))
        toc=struct.unpack('<i',blob[pos+4:pos+8])[0]; e='>' if toc&64 else '<'
        ver,nso,rdo=struct.unpack(e+'iQQ',blob[pos+8:pos+28])
        mstart=pos+28; cur=mstart; objs=[]
        if toc&2:
            n=struct.unpack(e+'I',blob[cur:cur+4])[0]; cur+=4
            for _ in range(n):
                l=struct.unpack(e+'I',blob[cur:cur+4])[0]; cur+=4; path=blob[cur:cur+l].decode('utf-8'); cur+=l
                hdr=struct.unpack(e+'I',blob[cur:cur+4])[0]; cur+=4
                idx=None
                if hdr==0xFFFFFFFF: pass
                elif hdr==0: idx=known[path]
                elif hdr in (0x1269,0x126A):
                    dt,dim,cnt,ns=struct.unpack(e+'IIQI',blob[cur:cur+20]); cur+=20
                    cur+=ns*(20 if hdr==0x1269 else 17)
                    nw=struct.unpack(e+'I',blob[cur:cur+4])[0]; cur+=4; ws=struct.unpack(e+'%dI'%nw,blob[cur:cur+4*nw]); cur+=4*nw
                    idx=('daqmx',cnt,ws)
                else:
                    body=blob[cur:cur+hdr-4]
                    dt,dim,cnt=struct.unpack(e+'IIQ',body[:16])
                    if dim!=1: raise Bad('dim')
                    if dt==0x20:
                        if hdr!=28: raise Bad('string index length field %d but 28 bytes needed (path %s)'%(hdr,path))
                        tot=struct.unpack(e+'Q',body[16:24])[0]; idx=(dt,cnt,tot)
                    else:
                        if hdr!=20: raise Bad('index length %d for fixed type'%hdr)
                        idx=(dt,cnt,cnt*SIZES[dt])
                    cur+=hdr-4
                if idx: known[path]=idx
                npr=struct.unpack(e+'I',blob[cur:cur+4])[0]; cur+=4
                for _ in range(npr):
                    l=struct.unpack(e+'I',blob[cur:cur+4])[0]; cur+=4+l
                    pt=struct.unpack(e+'I',blob[cur:cur+4])[0]; cur+=4
                    if pt==0x20: l=struct.unpack(e+'I',blob[cur:cur+4])[0]; cur+=4+l
                    else: cur+=SIZES[pt]
                objs.append((path,hdr,idx))
            if cur-mstart!=rdo: raise Bad('metadata parses to %d bytes, raw data offset says %d'%(cur-mstart,rdo))
        segs.append((pos,toc,nso,rdo,objs))
        pos = mstart+rdo if index else mstart+nso
    return segs
if __name__=='__main__':
    for f in sorted(glob.glob('/repo/nptdms/test/data/*.tdms')):
        try: s=parse(open(f,'rb').read()); print(os.path.basename(f),'OK segments',len(s), 'string idx', [o for sg in s for o in sg[4] if o[2] and o[2][0]==0x20][:2])
        except Exception as ex: print(os.path.basename(f),'FAIL',type(ex).__name__,ex)
    from nptdms import TdmsWriter, ChannelObject, RootObject, GroupObject
    out=io.BytesIO(); idx=io.BytesIO()
    with TdmsWriter(out,index_file=idx) as w:
        w.write_segment([RootObject({'a':1}),GroupObject('g',{'b':'x'}),ChannelObject('g','c',np.arange(4,dtype='i2'),{'t':np.datetime64('2020-01-01')})])
        w.write_segment([ChannelObject('g','c',np.arange(2,dtype='i2')),ChannelObject('h','d',np.array([1.5]))])
    print('numeric writer output', len(parse(out.getvalue())), len(parse(idx.getvalue(),index=True)))
    out=io.BytesIO()
    with TdmsWriter(out) as w: w.write_segment([ChannelObject('g','s',['ab','c'])])
    try: parse(out.getvalue()); print('string ok')
    except Bad as ex: print('string writer output:',ex)
