import io, numpy as np, datetime, warnings
from nptdms import TdmsFile, TdmsWriter, ChannelObject, RootObject, GroupObject, types
warnings.simplefilter('ignore')
def rt(data, label, props=None):
    out=io.BytesIO()
    try:
        with TdmsWriter(out) as w: w.write_segment([ChannelObject('g','c',data,props)])
    except Exception as ex: print(label,'WRITE RAISES',type(ex).__name__,ex); return
    try:
        f=TdmsFile.read(io.BytesIO(out.getvalue())); c=f['g']['c']
        d=c[:]
        print(label,'->',d.dtype,d[:5], 'props', dict(c.properties))
    except Exception as ex: print(label,'READ RAISES',type(ex).__name__,ex)
rt(np.array([1,2,3],dtype='>i4'),'BE int32')
rt(np.array([1.5,2],dtype='>f8'),'BE f8')
rt(np.array([],dtype='datetime64[us]'),'empty dt64')
rt(np.array([],dtype=object),'empty obj')
rt(np.array([],dtype='U1'),'empty U')
rt([], 'empty list')
rt([True,False],'bool list')
rt(np.array([True,False]),'bool arr')
rt(['a','é€😀',''],'str list')
rt(np.array(['a','bcd']),'U arr')
rt(np.array([b'a',b'bcd']),'S arr')
rt([datetime.datetime(2020,1,1,0,0,16,1)],'datetime list')
rt(np.array(['2020-01-01T00:00:16.000001'],dtype='datetime64[ns]'),'dt64 ns')
rt(np.array(['1899-01-01T00:00:16.5'],dtype='datetime64[us]'),'dt64 pre-1904')
rt(np.array([1+2j],dtype=np.complex64),'c64')
rt(np.array([1,2],dtype=np.float16),'f16')
rt(np.array([[1,2]]),'2d')
rt(np.arange(10)[::2],'strided view')
rt(np.arange(10,dtype='i8')[::-1],'reversed view')
P=lambda v: rt(np.array([1.0]),'prop %r'%(v,),{'p':v})
for v in [2**31-1,2**31,-2**31,-2**31-1,2**63-1,2**63,2**64-1,2**64,-2**63,-2**63-1,1.5,float('nan'),True,np.int8(-3),np.uint64(2**64-1),np.float32(1.5),'é',b'ab',datetime.datetime(2020,1,1,0,0,16,1),np.datetime64('2020-01-01T00:00:16.000001'),types.Uint8(200),None,np.bool_(True), datetime.date(2020,1,1)]:
    P(v)
