import io, numpy as np, struct, traceback
from enc import *
from nptdms import TdmsFile, TdmsWriter, ChannelObject, RootObject, GroupObject
def defrag(seg, label):
    out = io.BytesIO()
    try:
        TdmsWriter.defragment(io.BytesIO(seg), out)
        g = TdmsFile.read(io.BytesIO(out.getvalue()), raw_timestamps=True)
        print(label, 'OK', [(c.path, c.data_type, len(c)) for gr in g.groups() for c in gr.channels()])
    except Exception as ex:
        print(label, 'RAISES', type(ex).__name__, ex); traceback.print_exc(limit=-3)
defrag(segment([obj('<', "/", None), obj('<', "/'g'", None), obj('<', "/'g'/'a'", None)], b'', TOC['newobj']), 'no-dtype')
defrag(segment([obj('<', "/'g'/'a'", (0x20,0,0))], b'', TOC['newobj']|TOC['raw']), 'empty-string')
defrag(segment([obj('<', "/'g'/'a'", (0x44,0))], b'', TOC['newobj']|TOC['raw']), 'empty-ts')
defrag(segment([obj('<', "/'g'/'a'", (3,0))], b'', TOC['newobj']|TOC['raw']), 'empty-int')
defrag(segment([obj('<', "/'g'/'a'", (0x21,2))], b'\x01\x00', TOC['newobj']|TOC['raw']), 'bool')
defrag(segment([obj('<', "/'g'/'a'", (0x19,2))], struct.pack('<ff',1,2), TOC['newobj']|TOC['raw']), 'float-with-unit')
defrag(segment([obj('<', "/'g'/'a'", (0x44,2))], struct.pack('<QqQq',1,2,3,4), TOC['newobj']|TOC['raw']), 'ts')
defrag(segment([obj('<', "/'g'/'a'", (0x20,2,8+3))], struct.pack('<II',1,3)+b'abc', TOC['newobj']|TOC['raw']), 'str')
