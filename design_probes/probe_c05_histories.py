import io, numpy as np, random, logging, warnings, collections, traceback, sys
from gen import *
from cmp import *
NOCPLX=[t for t in TYPES if t not in('c64','c128','str','ts')]
def dig(x):
    if x is None: return None
    if isinstance(x,list): return tuple(x)
    a=np.asarray(x); return (a.astype(a.dtype.newbyteorder('=')).tobytes(), len(a))
kinds=collections.Counter()
def note(seed,*k):
    kinds[k[:2]]+=1
    if kinds[k[:2]]<=3: print('seed',seed,k)
for seed in range(int(sys.argv[1]),int(sys.argv[1])+int(sys.argv[2])):
    rng=random.Random(seed)
    segs=gen_file(rng,types=NOCPLX,max_segs=4)
    blob,idx,bounds=encode_file(segs)
    # fresh oracles
    with TdmsFile.open(io.BytesIO(blob)) as f:
        chans=[c for g in f.groups() for c in g.channels()]
        full={c.path:c[:] for c in chans}
    fresh_ch={}
    for c in chans:
        with TdmsFile.open(io.BytesIO(blob)) as f:
            fresh_ch[c.path]=[(ch.offset,dig(ch[:])) for ch in f[c.group_name][c.name].data_chunks()]
    with TdmsFile.open(io.BytesIO(blob)) as f:
        fresh_file=[[(cc.name,g.name,cc.offset,dig(cc[:])) for g in ch.groups() for cc in g.channels()] for ch in f.data_chunks()]
    if not chans: continue
    for h in range(5):
        with TdmsFile.open(io.BytesIO(blob)) as f:
            lch={c.path:f[c.group_name][c.name] for c in chans}
            gens=[]  # (kind, path, gen, count)
            for step in range(40):
                op=rng.choice(['index','slice','read','newcg','newfg','next','next','next'])
                c=rng.choice(chans); lc=lch[c.path]; n=len(c)
                try:
                    if op=='index' and n:
                        i=rng.randrange(n); v=lc[i]; e=full[c.path][i]
                        if not (v==e or (v!=v and e!=e)): note(seed,'index wrong',step)
                    elif op=='slice':
                        a=rng.randrange(0,n+1); b=rng.randrange(0,n+1)
                        if dig(lc[a:b])!=dig(full[c.path][a:b]): note(seed,'slice wrong',step)
                    elif op=='read':
                        a=rng.randrange(0,n+1); l=rng.randrange(0,n+2)
                        if dig(lc.read_data(a,l))!=dig(full[c.path][a:a+l]): note(seed,'read wrong',step)
                    elif op=='newcg': gens.append(['c',c.path,lc.data_chunks(),0])
                    elif op=='newfg': gens.append(['f',None,f.data_chunks(),0])
                    elif op=='next' and gens:
                        g=rng.choice(gens)
                        try:
                            ch=next(g[2])
                            if g[0]=='c':
                                exp=fresh_ch[g[1]]
                                if g[3]>=len(exp) or (ch.offset,dig(ch[:]))!=exp[g[3]]: note(seed,'channel gen wrong',step)
                            else:
                                got=[(cc.name,gg.name,cc.offset,dig(cc[:])) for gg in ch.groups() for cc in gg.channels()]
                                if g[3]>=len(fresh_file) or got!=fresh_file[g[3]]: note(seed,'file gen wrong',step)
                            g[3]+=1
                        except StopIteration:
                            exp=len(fresh_ch[g[1]]) if g[0]=='c' else len(fresh_file)
                            if g[3]!=exp: note(seed,('channel' if g[0]=='c' else 'file')+' gen short',g[3],exp)
                            gens.remove(g)
                except Exception as ex:
                    tb=traceback.extract_tb(ex.__traceback__)[-1]; note(seed,'raises '+type(ex).__name__,tb.name,str(ex)[:60],op)
for k,v in sorted(kinds.items(),key=str): print(v,k)
print('done')
