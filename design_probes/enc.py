"""Scratch independent TDMS encoder for design probes (not framework code)."""
import struct, io
import numpy as np

TOC = dict(meta=2, newobj=4, raw=8, inter=32, big=64, daqmx=128)

def s(e, txt):
    b = txt.encode('utf-8'); return struct.pack(e+'I', len(b)) + b

def prop(e, name, tcode, payload):
    return s(e, name) + struct.pack(e+'I', tcode) + payload

def obj(e, path, index, props=()):
    """index: None->no data, 'same'->0, or tuple(tcode, n[, strbytes])"""
    out = s(e, path)
    if index is None: out += struct.pack(e+'I', 0xFFFFFFFF)
    elif index == 'same': out += struct.pack(e+'I', 0)
    else:
        tcode, n = index[0], index[1]
        if tcode == 0x20:
            out += struct.pack(e+'IIIQQ', 28, tcode, 1, n, index[2])
        else:
            out += struct.pack(e+'IIIQ', 20, tcode, 1, n)
    out += struct.pack(e+'I', len(props))
    for p in props: out += p
    return out

def segment(objs, data, toc, e='<', nso=None, ver=4713, has_meta=True):
    meta = (struct.pack(e+'I', len(objs)) + b''.join(objs)) if has_meta else b''
    mask = toc | (TOC['big'] if e == '>' else 0) | (TOC['meta'] if has_meta else 0)
    nxt = len(meta) + len(data) if nso is None else nso
    return b'TDSm' + struct.pack('<i', mask) + struct.pack(e+'iQQ', ver, nxt, len(meta)) + meta + data
