import io, numpy as np, struct, warnings
from enc import *
from nptdms import TdmsFile
R = TOC['raw']; N = TOC['newobj']
def P(e,name,val):
    if isinstance(val,str): return prop(e,name,0x20,s(e,val))
    if isinstance(val,float): return prop(e,name,10,struct.pack(e+'d',val))
    return prop(e,name,7,struct.pack(e+'I',val))
def lin(e='<'): return [P(e,'NI_Number_Of_Scales',1),P(e,'NI_Scale[0]_Scale_Type','Linear'),P(e,'NI_Scale[0]_Linear_Slope',2.0),P(e,'NI_Scale[0]_Linear_Y_Intercept',1.0)]
def tc(e='<', d=0): return [P(e,'NI_Number_Of_Scales',1),P(e,'NI_Scale[0]_Scale_Type','Thermocouple'),P(e,'NI_Scale[0]_Thermocouple_Thermocouple_Type',10073),P(e,'NI_Scale[0]_Thermocouple_Scaling_Direction',d)]
for tcode, dt in [(9,'<f4'),(10,'<f8'),(3,'<i4'),(1,'<i1'),(0x21,'?'),(0x08000c,'<c8'),(8,'<u8')]:
    for nm, props in [('lin',lin()),('tc0',tc()),('tc1',tc(d=1))]:
        d = np.array([1,2,3]).astype(dt)
        seg = segment([obj('<', "/'g'/'a'", (tcode,3), props)], d.tobytes(), R|N)
        with warnings.catch_warnings():
            warnings.simplefilter('ignore')
            try:
                f = TdmsFile.read(io.BytesIO(seg)); ch=f['g']['a']
                with TdmsFile.open(io.BytesIO(seg)) as g:
                    e = g['g']['a'][0:0].dtype; l = g['g']['a'][:]
                print(dt, nm, 'declared', ch.dtype, 'actual', ch[:].dtype, 'lazy-empty', e, 'vals', ch[:])
            except Exception as ex: print(dt, nm, 'RAISES', type(ex).__name__, ex)
