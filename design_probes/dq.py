import struct, random, io, sys, collections, logging, traceback, warnings
import numpy as np
from gen import enc_str, TOC
from nptdms import TdmsFile
from nptdms.log import log_manager
log_manager.set_level(logging.CRITICAL); warnings.simplefilter('ignore')
DQ={0:('u1',1),1:('i1',1),2:('u2',2),3:('i2',2),4:('u4',4),5:('i4',4),6:('u8',8),7:('i8',8),8:('f4',4),9:('f8',8)}
TDS={ 'u1':5,'i1':1,'u2':6,'i2':2,'u4':7,'i4':3,'u8':8,'i8':4,'f4':9,'f8':10}
def gen(rng):
    e=rng.choice('<>')
    nbuf=rng.randint(1,3)
    nchan=rng.randint(1,4)
    digital=rng.random()<0.25
    buflen=[rng.choice([1,2,3,5]) for _ in range(nbuf)]
    # allocate scalers
    chans=[]; used=[0]*nbuf; bitused=[0]*nbuf
    for c in range(nchan):
        raw=rng.random()<0.7 or digital
        ns=1 if not raw else rng.randint(1,3)
        b0=rng.randrange(nbuf)
        scalers=[]
        for s in range(ns):
            b=b0 if rng.random()<0.8 else rng.choice([i for i in range(nbuf) if buflen[i]==buflen[b0]])
            if digital:
                tcode=0; bit=bitused[b]+rng.randint(0,3); bitused[b]=bit+1; used[b]=max(used[b],bit//8+1)
                scalers.append(dict(t=tcode,buf=b,bit=bit,id=s))
            else:
                tcode=rng.choice(list(DQ)); size=DQ[tcode][1]
                off=used[b]+rng.choice([0,0,1,3]); used[b]=off+size
                scalers.append(dict(t=tcode,buf=b,off=off,id=s))
        chans.append(dict(name='c%d'%c,raw=raw,scalers=scalers,n=buflen[b0]))
    widths=[max(1,used[i])+rng.choice([0,0,2]) for i in range(nbuf)]
    usedbuf={s['buf'] for ch in chans for s in ch['scalers']}
    buflen=[buflen[i] if i in usedbuf else 0 for i in range(nbuf)]
    nch=rng.randint(1,3)
    chunk_size=sum(buflen[i]*widths[i] for i in range(nbuf))
    data=bytes(rng.getrandbits(8) for _ in range(chunk_size*nch))
    # metadata
    meta=struct.pack(e+'I',len(chans))
    for ch in chans:
        p="/'G'/'%s'"%ch['name']
        meta+=enc_str(e,p)+struct.pack(e+'I',0x126A if digital else 0x1269)
        dt=0xFFFFFFFF if ch['raw'] else TDS[DQ[ch['scalers'][0]['t']][0]]
        meta+=struct.pack(e+'IIQI',dt,1,ch['n'],len(ch['scalers']))
        for s in ch['scalers']:
            if digital: meta+=struct.pack(e+'IIIBI',s['t'],s['buf'],s['bit'],0,s['id'])
            else: meta+=struct.pack(e+'IIIII',s['t'],s['buf'],s['off'],0,s['id'])
        meta+=struct.pack(e+'I',nbuf)+b''.join(struct.pack(e+'I',w) for w in widths)
        meta+=struct.pack(e+'I',0)
    mask=TOC['meta']|TOC['newobj']|TOC['raw']|TOC['daqmx']|(TOC['big'] if e=='>' else 0)
    blob=b'TDSm'+struct.pack('<i',mask)+struct.pack(e+'iQQ',4713,len(meta)+len(data),len(meta))+meta+data
    # oracle
    exp={}
    for ch in chans:
        for s in ch['scalers']:
            vals=[]
            for k in range(nch):
                base=k*chunk_size+sum(buflen[i]*widths[i] for i in range(s['buf']))
                for r in range(buflen[s['buf']]):
                    row=base+r*widths[s['buf']]
                    if digital:
                        byte=data[row+s['bit']//8]; vals.append((byte>>(s['bit']%8))&1)
                    else:
                        dt,size=DQ[s['t']]
                        vals.append(np.frombuffer(data[row+s['off']:row+s['off']+size],dtype=np.dtype(dt).newbyteorder(e))[0])
            exp[(ch['name'],s['id'])]=vals
    return blob,chans,exp,dict(e=e,nbuf=nbuf,buflen=buflen,widths=widths,nch=nch,digital=digital, datapos=28+len(meta), chunk_size=chunk_size)
def same(a,b):
    a=np.asarray(a); b=np.asarray(b)
    if len(a)!=len(b): return False
    return all((x==y) or (x!=x and y!=y) for x,y in zip(a.tolist(),b.tolist()))
if __name__=='__main__':
    kinds=collections.Counter()
    def note(seed,*k):
        k=tuple(str(x) for x in k); kinds[k[:2]]+=1
        if kinds[k[:2]]<=2: print('seed',seed,k)
    for seed in range(int(sys.argv[1]),int(sys.argv[1])+int(sys.argv[2])):
        rng=random.Random(seed)
        try: blob,chans,exp,info=gen(rng)
        except (IndexError,ValueError) as ex: continue
        try:
            f=TdmsFile.read(io.BytesIO(blob))
            for ch in chans:
                c=f['G'][ch['name']]
                if ch['raw']:
                    for s in ch['scalers']:
                        got=c.raw_scaler_data[s['id']]
                        if not same(got,exp[(ch['name'],s['id'])]): note(seed,'eager mismatch',info,ch)
                else:
                    if not same(c.raw_data,exp[(ch['name'],0)]): note(seed,'eager typed mismatch',info,ch)
            with TdmsFile.open(io.BytesIO(blob)) as lf:
                for ch in chans:
                    c=lf['G'][ch['name']]; n=len(c)
                    for off,ln in [(0,None),(1,2),(n-1,5),(2,0),(n,1)]:
                        if off<0: continue
                        r=c.read_data(off,ln,scaled=False)
                        for s in ch['scalers']:
                            e_=exp[(ch['name'],s['id'])][off:(None if ln is None else off+ln)]
                            g=r[s['id']] if isinstance(r,dict) else r
                            if not same(g,e_): note(seed,'lazy window mismatch',off,ln,info,ch)
        except Exception as ex:
            tb=traceback.extract_tb(ex.__traceback__)[-1]; note(seed,'raises '+type(ex).__name__,tb.name,str(ex)[:80],info)
        # truncation
        dp=info['datapos']
        for cut in range(dp,len(blob)):
            try:
                f=TdmsFile.read(io.BytesIO(blob[:cut]))
                avail=cut-dp; full=avail//info['chunk_size']; rem=avail%info['chunk_size']
                rows=[]
                for i in range(info['nbuf']):
                    tot=info['buflen'][i]*info['widths'][i]
                    if rem>=tot: rows.append(info['buflen'][i]); rem-=tot
                    else: rows.append(rem//info['widths'][i]); rem=0
                for ch in chans:
                    bufs={s['buf'] for s in ch['scalers']}
                    if len(bufs)!=1: continue
                    b=bufs.pop(); want=full*info['buflen'][b]+rows[b]
                    c=f['G'][ch['name']]
                    if len(c)!=want: note(seed,'trunc len',len(c),want,cut-dp,info)
                    for s in ch['scalers']:
                        # expected values: complete chunks then partial
                        ev=exp[(ch['name'],s['id'])]
                        e_=ev[:full*info['buflen'][b]]+ev[full*info['buflen'][b]:full*info['buflen'][b]+rows[b]]
                        g=c.raw_scaler_data[s['id']] if ch['raw'] else c.raw_data
                        if not same(g,e_): note(seed,'trunc data',cut-dp,info)
            except Exception as ex:
                tb=traceback.extract_tb(ex.__traceback__)[-1]; note(seed,'trunc raises '+type(ex).__name__,tb.name,str(ex)[:80],cut-dp,info)
    for k,v in sorted(kinds.items(),key=str): print(v,k)
    print('done')
