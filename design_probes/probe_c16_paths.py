import itertools
from nptdms.common import ObjectPath
alpha=["'","/"," ","a"]
names=[''.join(t) for n in range(0,5) for t in itertools.product(alpha,repeat=n)]
print(len(names))
bad=0; seen={}
for g in names:
    p=ObjectPath(g); q=ObjectPath.from_string(str(p))
    if (q.group,q.channel)!=(g,None): bad+=1; print('group',repr(g),str(p),(q.group,q.channel))
    if str(p) in seen: print('ALIAS',repr(g),seen[str(p)])
    seen[str(p)]=(g,None)
names3=[n for n in names if len(n)<=3]
for g in names3:
    for c in names3:
        p=ObjectPath(g,c); q=ObjectPath.from_string(str(p))
        if (q.group,q.channel)!=(g,c):
            bad+=1
            if bad<15: print('pair',repr(g),repr(c),str(p),(q.group,q.channel))
        if str(p) in seen and seen[str(p)]!=(g,c): print('ALIAS',repr((g,c)),seen[str(p)])
        seen[str(p)]=(g,c)
print('bad',bad,'total',len(seen))
print(repr(ObjectPath.from_string("/").group), ObjectPath().is_root, str(ObjectPath()))
