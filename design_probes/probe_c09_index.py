import io, numpy as np, random, logging, warnings, collections, traceback, sys, os, tempfile, shutil
from gen import *
from cmp import *
NOCPLX=[t for t in TYPES if t not in('c64','c128')]
kinds=collections.Counter()
def note(seed,*k):
    kinds[k[:3]]+=1
    if kinds[k[:3]]<=2: print('seed',seed,k)
def snap(f, data=True):
    out={'root':repr(dict(f.properties)),'groups':[(g.path,repr(dict(g.properties))) for g in f.groups()]}
    for g in f.groups():
        for c in g.channels():
            ent=[str(c.data_type),len(c),repr(dict(c.properties)),str(c.dtype)]
            if data:
                d=c[:]
                if c.data_type is not None and c.data_type.__name__=='TimeStamp' and len(d): v=[(int(a),int(b)) for a,b in zip(d.seconds,d.second_fractions)]
                elif c.data_type is not None and c.data_type.__name__=='String': v=list(d)
                else: v=np.asarray(d).tobytes()
                ent.append(v)
            out[c.path]=ent
    return out
seed0=int(sys.argv[1]); N=int(sys.argv[2])
d=tempfile.mkdtemp(dir='/tmp/scratch')
for seed in range(seed0,seed0+N):
    rng=random.Random(seed)
    segs=gen_file(rng,types=NOCPLX,max_segs=4)
    blob,idx,bounds=encode_file(segs)
    # also truncated variant
    for variant in ['full','trunc']:
        b=blob if variant=='full' else blob[:rng.randrange(bounds[-1][0]+1, len(blob)+1)]
        p=os.path.join(d,'f.tdms'); ip=p+'_index'
        open(p,'wb').write(b)
        if os.path.exists(ip): os.unlink(ip)
        try:
            base_e=snap(TdmsFile.read(p,raw_timestamps=True))
            with TdmsFile.open(p,raw_timestamps=True) as f: base_l=snap(f)
            base_m=snap(TdmsFile.read_metadata(p,raw_timestamps=True),data=False)
        except Exception as ex: note(seed,'base raises',variant,type(ex).__name__,str(ex)[:60]); continue
        open(ip,'wb').write(idx)
        try:
            e=snap(TdmsFile.read(p,raw_timestamps=True))
            with TdmsFile.open(p,raw_timestamps=True) as f: l=snap(f)
            m=snap(TdmsFile.read_metadata(p,raw_timestamps=True),data=False)
            if e!=base_e: note(seed,'index eager differs',variant,[k for k in e if e[k]!=base_e.get(k)][:2])
            if l!=base_l: note(seed,'index lazy differs',variant)
            if m!=base_m: note(seed,'index meta differs',variant)
            if variant=='full':
                io_=snap(TdmsFile.read(ip,raw_timestamps=True),data=False)
                if io_!=base_m: note(seed,'index-only differs',[k for k in io_ if io_[k]!=base_m.get(k)][:2])
                with TdmsFile.open(ip) as f:
                    for g in f.groups():
                        for c in g.channels():
                            if len(c)>0:
                                try: c[:]; note(seed,'index-only data read succeeded')
                                except RuntimeError: pass
                                except Exception as ex: note(seed,'index-only read raises other',type(ex).__name__)
        except Exception as ex:
            tb=traceback.extract_tb(ex.__traceback__)[-1]; note(seed,'with index raises',variant,type(ex).__name__,tb.name,str(ex)[:60])
shutil.rmtree(d)
for k,v in sorted(kinds.items(),key=str): print(v,k)
print('done')
