import io, numpy as np, random, logging, warnings, collections, traceback, sys, os, tempfile
from gen import *
from cmp import *
NOCPLX=[t for t in TYPES if t not in('c64','c128')]
kinds=collections.Counter()
def note(seed,*k):
    kinds[k[:3]]+=1
    if kinds[k[:3]]<=2: print('seed',seed,k)
def vals_of(f):
    out={}
    for g in f.groups():
        for c in g.channels():
            d=c[:]
            if c.data_type is not None and c.data_type.__name__=='TimeStamp': v=[(int(a),int(b)) for a,b in zip(d.seconds,d.second_fractions)]
            elif c.data_type is not None and c.data_type.__name__=='String': v=list(d)
            else: v=[x.tobytes() for x in np.asarray(d)]
            out[c.path]=(v,len(c))
    return out
if __name__!="__main__": raise SystemExit
seed0=int(sys.argv[1]); N=int(sys.argv[2]); ncuts=0
for seed in range(seed0,seed0+N):
    rng=random.Random(seed)
    segs=gen_file(rng,types=NOCPLX,max_segs=3)
    for unk in [False,True]:
        blob,idx,bounds=encode_file(segs,unknown_len_last=unk)
        try: full=vals_of(TdmsFile.read(io.BytesIO(blob),raw_timestamps=True))
        except Exception as ex: note(seed,'full raises',type(ex).__name__); continue
        # values per channel in segments wholly before cut: cumulative from model
        objs, vals, props, types = expected(segs)
        cum=[]; acc=collections.Counter()
        for s in segs:
            for ch in s.chunks:
                for p,hd,ix in s.active:
                    if hd: acc[p]+=len(ch[p])
            cum.append(dict(acc))
        laststr = any(hd and ix[0]=='str' for p,hd,ix in segs[-1].active) and len(segs[-1].chunks)>1
        for cut in range(4,len(blob)+1):
            ncuts+=1
            t=blob[:cut]
            nwhole=sum(1 for (a,b,c) in bounds if c<=cut)
            inside_raw=any(b<=cut<c for (a,b,c) in bounds)
            try:
                ef=TdmsFile.read(io.BytesIO(t),raw_timestamps=True); got=vals_of(ef)
            except Exception as ex:
                tb=traceback.extract_tb(ex.__traceback__)[-1]
                note(seed,'cut raises','unk' if unk else 'known',type(ex).__name__,tb.name,cut,str(ex)[:60]); continue
            for p,(v,n) in got.items():
                fv=full.get(p,([],0))[0]
                if v!=fv[:len(v)]: note(seed,'not prefix','unk' if unk else 'known',cut,p)
                if n!=len(v): note(seed,'len mismatch','unk' if unk else 'known',cut,p)
                need=cum[nwhole-1].get(p,0) if nwhole else 0
                if len(v)<need: note(seed,'lost complete-segment data','unk' if unk else 'known',cut,p,len(v),need)
            st=ef.file_status.incomplete_final_segment
            if st!=inside_raw: note(seed,'file_status','unk' if unk else 'known', 'reported',st,'expected',inside_raw,cut,bounds)
            try:
                with TdmsFile.open(io.BytesIO(t),raw_timestamps=True) as lf:
                    lg=vals_of(lf)
                if lg!=got: note(seed,'lazy!=eager','unk' if unk else 'known',cut)
            except Exception as ex:
                tb=traceback.extract_tb(ex.__traceback__)[-1]
                note(seed,'lazy raises','unk' if unk else 'known',type(ex).__name__,tb.name,cut,str(ex)[:60])
for k,v in sorted(kinds.items(),key=str): print(v,k)
print('done cuts',ncuts)
