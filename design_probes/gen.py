"""Scratch prototype: logical TDMS model + independent encoder (design probe, not framework)."""
import struct, random, io
import numpy as np

TOC = dict(meta=2, newobj=4, raw=8, inter=32, big=64, daqmx=128)
# typekey -> (tdms code, numpy base dtype or None, size)
TYPES = {
 'i8':(1,'i1',1),'i16':(2,'i2',2),'i32':(3,'i4',4),'i64':(4,'i8',8),
 'u8':(5,'u1',1),'u16':(6,'u2',2),'u32':(7,'u4',4),'u64':(8,'u8',8),
 'f32':(9,'f4',4),'f64':(10,'f8',8),'f32u':(0x19,'f4',4),'f64u':(0x1A,'f8',8),
 'bool':(0x21,'?',1),'c64':(0x08000c,'c8',8),'c128':(0x10000d,'c16',16),
 'str':(0x20,None,None),'ts':(0x44,None,16),
}
FIXED=[k for k in TYPES if k!='str']

def path(group=None, chan=None):
    q=lambda x:"'"+x.replace("'","''")+"'"
    if group is None: return '/'
    return '/'+q(group) if chan is None else '/'+q(group)+'/'+q(chan)

def rand_values(rng, t, n):
    """returns python-level canonical values: for numeric -> np array native; str -> list[str]; ts -> list[(sec, frac)]"""
    if t=='str':
        alphabet=['a','b','é','€','😀',' ',"'",'/','\x00','Z']
        return [''.join(rng.choice(alphabet) for _ in range(rng.choice([0,1,1,2,3,7]))) for _ in range(n)]
    if t=='ts':
        return [(rng.choice([0,-1,1,3600000000,-2082844800,2**62,-2**62,rng.randrange(-2**40,2**40)]),
                 rng.choice([0,1,2**64-1,2**63,rng.randrange(2**64)])) for _ in range(n)]
    code,dt,size=TYPES[t]
    raw=bytes(rng.getrandbits(8) for _ in range(n*size))
    a=np.frombuffer(raw,dtype=np.dtype(dt).newbyteorder('<')).copy()
    if dt=='?': a=np.frombuffer(bytes(b&1 for b in raw),dtype='?').copy()
    return a.astype(np.dtype(dt)) if dt!='?' else a

def enc_values(t, vals, e):
    if t=='str':
        bs=[v.encode('utf-8') for v in vals]
        offs=[];tot=0
        for b in bs: tot+=len(b); offs.append(tot)
        return b''.join(struct.pack(e+'I',o) for o in offs)+b''.join(bs)
    if t=='ts':
        if e=='<': return b''.join(struct.pack('<Qq',f,s) for s,f in vals)
        return b''.join(struct.pack('>qQ',s,f) for s,f in vals)
    code,dt,size=TYPES[t]
    return np.asarray(vals).astype(np.dtype(dt).newbyteorder(e)).tobytes()

def enc_str(e,s):
    b=s.encode('utf-8'); return struct.pack(e+'I',len(b))+b

def enc_prop(e,name,ptype,val):
    out=enc_str(e,name)
    if ptype=='str': return out+struct.pack(e+'I',0x20)+enc_str(e,val)
    if ptype=='ts':
        out+=struct.pack(e+'I',0x44); s,f=val
        return out+(struct.pack('<Qq',f,s) if e=='<' else struct.pack('>qQ',s,f))
    code,dt,size=TYPES[ptype]
    return out+struct.pack(e+'I',code)+np.array([val]).astype(np.dtype(dt).newbyteorder(e)).tobytes()

class Seg:
    """One physical segment: result of generator. Fields:
       listing: [(path, hdr, index)] hdr in full/same/nodata ; index=(type,nvals,strtotal)
       props: {path: [(name,ptype,val)]}
       new_obj_list, has_meta, endian, interleaved
       active: ordered [(path, has_data, index)] AFTER this segment
       chunks: list per chunk of {path: values}
    """
    pass

def encode_segment(seg, explicit=False, unknown_len=False, version=4713):
    e=seg.endian
    active=seg.active
    data=b''
    dobjs=[(p,idx) for (p,hd,idx) in active if hd]
    if seg.interleaved:
        for ch in seg.chunks:
            cols=[enc_values(idx[0],ch[p],e) for p,idx in dobjs]
            n=dobjs[0][1][1] if dobjs else 0
            for r in range(n):
                for (p,idx),col in zip(dobjs,cols):
                    sz=TYPES[idx[0]][2]; data+=col[r*sz:(r+1)*sz]
    else:
        for ch in seg.chunks:
            for p,idx in dobjs: data+=enc_values(idx[0],ch[p],e)
    if explicit:
        listed={p for p,_,_ in seg.listing}
        listing=[]
        for (p,hd,idx) in active:
            if hd: listing.append((p,'full',idx))
            elif p in listed: listing.append((p,'nodata',None))
        has_meta=True; newobj=True
    else:
        listing=seg.listing; has_meta=seg.has_meta; newobj=seg.new_obj_list
    meta=b''
    if has_meta:
        meta=struct.pack(e+'I',len(listing))
        for p,hdr,idx in listing:
            meta+=enc_str(e,p)
            if hdr=='nodata': meta+=struct.pack(e+'I',0xFFFFFFFF)
            elif hdr=='same': meta+=struct.pack(e+'I',0)
            else:
                t,n,tot=idx; code=TYPES[t][0]
                if t=='str': meta+=struct.pack(e+'IIIQQ',28,code,1,n,tot)
                else: meta+=struct.pack(e+'IIIQ',20,code,1,n)
            pl=seg.props.get(p,[])
            meta+=struct.pack(e+'I',len(pl))
            for name,pt,val in pl: meta+=enc_prop(e,name,pt,val)
    mask=(TOC['meta'] if has_meta else 0)|(TOC['newobj'] if (newobj and has_meta) else 0)|(TOC['raw'] if (data or seg.raw_flag) else 0)|(TOC['inter'] if seg.interleaved else 0)|(TOC['big'] if e=='>' else 0)
    nxt=0xFFFFFFFFFFFFFFFF if unknown_len else len(meta)+len(data)
    lead=struct.pack('<i',mask)+struct.pack(e+'iQQ',version,nxt,len(meta))
    return lead, meta, data

def encode_file(segs, explicit=False, unknown_len_last=False):
    out=b''; idx=b''; bounds=[]
    for i,s in enumerate(segs):
        lead,meta,data=encode_segment(s,explicit,unknown_len_last and i==len(segs)-1)
        bounds.append((len(out),len(out)+28+len(meta),len(out)+28+len(meta)+len(data)))
        out+=b'TDSm'+lead+meta+data; idx+=b'TDSh'+lead+meta
    return out, idx, bounds

def gen_file(rng, max_segs=4, max_chans=3, types=None, allow_inter=True, allow_be=True, p_explicit=0.0):
    types=types or list(TYPES)
    groups=['g',"g'2",'']
    universe=[]
    for i in range(max_chans):
        g=rng.choice(groups[:2]); universe.append((path(g,'c%d'%i), rng.choice(types)))
    chtype=dict(universe)
    extra=[path(), path('g'), path("g'2"), path('onlygroup')]
    segs=[]; active=[]; last_index={}
    nseg=rng.randint(1,max_segs)
    for si in range(nseg):
        s=Seg(); s.endian=rng.choice('<>') if allow_be else '<'
        s.props={}; s.raw_flag=True
        prev_active=list(active)
        mode=rng.random()
        if segs and mode<0.15 and any(hd for _,hd,_ in active):
            # no metadata segment
            s.has_meta=False; s.new_obj_list=False; s.listing=[]; s.interleaved=segs[-1].interleaved
            # no-meta keeps endianness? toc flag is per segment; data endianness from this seg's flag
        else:
            s.has_meta=True
            s.new_obj_list = (not segs) or rng.random()<0.4
            if s.new_obj_list: active=[]
            listing=[]
            # choose objects to list
            cands=universe[:]; rng.shuffle(cands)
            k=rng.randint(0,len(cands))
            for p,t in cands[:k]:
                cur=[i for i,(pp,_,_) in enumerate(active) if pp==p]
                r=rng.random()
                if p in last_index and r<0.3: hdr='same'; idx=last_index[p]; entry=(p,True,idx)
                elif r<0.45: hdr='nodata'; idx=None; entry=(p,False,last_index.get(p))
                else:
                    n=rng.choice([0,1,2,3,5])
                    idx=(t,n,None); hdr='full'; entry=(p,True,idx)
                listing.append([p,hdr,idx])
                if cur: active[cur[0]]=entry
                else: active.append(entry)
                if hdr=='full': last_index[p]=idx
            for p in rng.sample(extra, rng.randint(0,len(extra))):
                listing.insert(rng.randint(0,len(listing)),[p,'nodata',None])
            s.listing=listing
            dobjs=[(p,idx) for p,hd,idx in active if hd]
            fixed=all(idx[0]!='str' for p,idx in dobjs); same_n=len({idx[1] for p,idx in dobjs})<=1
            s.interleaved = bool(allow_inter and dobjs and fixed and same_n and rng.random()<0.4)
            # properties
            for l in listing:
                if rng.random()<0.4:
                    s.props[l[0]]=[(rng.choice(['p','q','wf_increment']), pt, pv) for pt,pv in
                        [rng.choice([('i32',rng.randrange(-2**31,2**31)),('f64',rng.random()),('str',rng.choice(['x','é😀',''])),('ts',(rng.randrange(2**32),rng.randrange(2**64))),('u64',2**64-1),('bool',True)])]]
        dobjs=[(p,idx) for p,hd,idx in active if hd]
        chunk_bytes_nonzero=any(idx[1]>0 for p,idx in dobjs)
        nch=rng.choice([1,1,2,3]) if chunk_bytes_nonzero else 0
        if not s.has_meta and nch==0: nch=0
        # strings: fix total size per chunk: choose lengths for first chunk then permute
        s.chunks=[]
        strtot={}
        for c in range(nch):
            ch={}
            for p,idx in dobjs:
                t,n,tot=idx
                if t=='str':
                    if idx[2] is not None:
                        # must match total size: generate strings with total bytes == tot-4n
                        need=idx[2]-4*n; vals=['']*n
                        if n==0: pass
                        else:
                            vals=['a'*need]+['']*(n-1); rng.shuffle(vals)
                        ch[p]=vals
                    else:
                        vals=rand_values(rng,t,n); tot=sum(len(v.encode())+4 for v in vals)
                        newidx=(t,n,tot)
                        # patch index everywhere (active, listing, last_index)
                        for i,(pp,hd,ix) in enumerate(active):
                            if pp==p: active[i]=(pp,hd,newidx)
                        for l in s.listing:
                            if l[0]==p and l[1]=='full': l[2]=newidx
                        last_index[p]=newidx
                        dobjs=[(pp,(newidx if pp==p else ix)) for pp,ix in dobjs]
                        idx=newidx; ch[p]=vals
                else: ch[p]=rand_values(rng,t,n)
            s.chunks.append(ch)
        # strings with 0 chunks and undefined tot
        for i,(pp,hd,ix) in enumerate(active):
            if ix is not None and ix[0]=='str' and ix[2] is None:
                newidx=(ix[0],ix[1],4*ix[1]) if ix[1]==0 else (ix[0],ix[1],4*ix[1])
                active[i]=(pp,hd,newidx)
                for l in s.listing:
                    if l[0]==pp and l[1]=='full': l[2]=newidx
                last_index[pp]=newidx
        s.listing=[tuple(l) for l in s.listing]
        s.active=list(active)
        segs.append(s)
    return segs

def expected(segs):
    """logical content: objects order, channel values (concatenated), props, types"""
    objs=[]; vals={}; props={}; types={}
    for s in segs:
        for p,hdr,idx in s.listing:
            if p not in objs: objs.append(p)
        for p,pl in s.props.items():
            for name,pt,v in pl: props.setdefault(p,{})[name]=(pt,v)
        for p,hd,idx in s.active:
            if idx is not None: types[p]=idx[0]
        for ch in s.chunks:
            for p,hd,idx in s.active:
                if hd: vals.setdefault(p,[]).append(ch[p])
    return objs, vals, props, types
