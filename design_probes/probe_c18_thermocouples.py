import numpy as np, warnings
import thermocouples_reference as tr
from nptdms import thermocouples as tc
def ref_fwd(L,T):
    tab=tr.thermocouples[L].func.table
    out=np.full(T.shape,np.nan)
    for i,(tmin,tmax,coefs,ec) in enumerate(tab):
        m=(T>=tmin)&(T<=tmax) if i==0 else (T>tmin)&(T<=tmax)
        v=np.polyval(coefs,T[m])
        if ec: v=v+ec[0]*np.exp(ec[1]*(T[m]-ec[2])**2)
        out[m]=v
    return out
invrange={'B':(250,1820),'E':(-200,1000),'J':(-210,1200),'K':(-200,1372),'N':(-200,1300),'R':(-50,1768.1),'S':(-50,1768.1),'T':(-200,400)}
for L in 'BEJKNRST':
    ref=tr.thermocouples[L]; imp=getattr(tc,'type_'+L.lower())
    lo,hi=ref.minT_C,ref.maxT_C
    print(L,[ (r[0],r[1]) for r in ref.func.table], 'impl fwd bounds',[p.applicable_range.end for p in imp._forward_polynomials[:-1]])
    T=np.linspace(lo,hi,200001)
    v_ref=ref_fwd(L,T); v=imp.celsius_to_mv(T)
    d=np.abs(v-v_ref)
    mono=(np.diff(v)>0).mean()
    jumps=[]
    for i,p in enumerate(imp._forward_polynomials[:-1]):
        b=p.applicable_range.end; q=imp._forward_polynomials[i+1]
        extra=0
        if imp._exponential_term and b>=0: pass
        jumps.append((b, float(abs(p.apply(b)-q.apply(b)))))
    print('  fwd max abs diff',d.max(),'mono frac',mono,'piece value gap at boundaries',jumps)
    a,bb=invrange[L]
    Ts=np.linspace(a,bb,400001); V=ref_fwd(L,Ts); Tb=imp.mv_to_celsius(V); err=Tb-Ts
    for r in [p.applicable_range for p in imp._inverse_polynomials]:
        m=r.within_range(V)
        if m.any(): print('   inv piece V',r.start,r.end,'err min/max %.5f %.5f'%(err[m].min(),err[m].max()),'T %.1f..%.1f'%(Ts[m].min(),Ts[m].max()))
