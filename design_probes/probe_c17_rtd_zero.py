import numpy as np, random, warnings
import numpy.polynomial.polynomial as poly
from nptdms.scaling import RtdScaling
warnings.simplefilter('ignore')
rng=random.Random(1)
A,B,C=3.9083e-3,-5.775e-7,-4.183e-12
for _ in range(300):
    R0=rng.choice([100.0,500.0,1000.0,rng.uniform(50,2000)])
    a=A*rng.uniform(0.95,1.05); b=B*rng.uniform(0.95,1.05); c=C*rng.uniform(0.9,1.1)
    I=rng.choice([1e-3,1e-4,rng.uniform(1e-4,2e-3)]); cfg=rng.choice([2,3,4]); lead=rng.choice([0.0,rng.uniform(0,5)])
    T=np.array([rng.uniform(-200,850) for _ in range(20)]+[-200.0,-1e-3,0.0,1e-3,850.0])
    R=R0*(1+a*T+b*T**2+np.where(T<0,c*(T-100)*T**3,0.0))
    k={2:2.0,3:1.0,4:0.0}[cfg]
    V=I*(R+k*lead)
    s=RtdScaling(I,R0,a,b,c,lead,cfg,0xFFFFFFFF)
    try: s.scale(V)
    except Exception:
        for t,v in zip(T,V):
            try: s.scale(np.array([v]))
            except Exception as ex:
                r_t=v/I - k*lead
                print('fails at T=',t,'r_t-R0=',r_t-R0,'cfg',cfg,'lead',lead,'roots',poly.polyroots([R0-r_t,R0*a,R0*b,-100*R0*c,R0*c]))
