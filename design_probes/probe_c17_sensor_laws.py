import numpy as np, random, warnings
from nptdms.scaling import RtdScaling, ThermistorScaling, StrainScaling, TableScaling, PolynomialScaling
warnings.simplefilter('ignore')
rng=random.Random(1)
# RTD
A,B,C=3.9083e-3,-5.775e-7,-4.183e-12
worst=0; n=0
for _ in range(300):
    R0=rng.choice([100.0,500.0,1000.0,rng.uniform(50,2000)])
    a=A*rng.uniform(0.95,1.05); b=B*rng.uniform(0.95,1.05); c=C*rng.uniform(0.9,1.1)
    I=rng.choice([1e-3,1e-4,rng.uniform(1e-4,2e-3)]); cfg=rng.choice([2,3,4]); lead=rng.choice([0.0,rng.uniform(0,5)])
    T=np.array([rng.uniform(-200,850) for _ in range(20)]+[-200.0,-1e-3,0.0,1e-3,850.0])
    R=R0*(1+a*T+b*T**2+np.where(T<0,c*(T-100)*T**3,0.0))
    k={2:2.0,3:1.0,4:0.0}[cfg]
    V=I*(R+k*lead)
    s=RtdScaling(I,R0,a,b,c,lead,cfg,0xFFFFFFFF)
    try:
        got=s.scale(V)
        err=np.abs(got-T)/np.maximum(np.abs(T),1.0)
        worst=max(worst,err.max()); n+=1
        if err.max()>1e-6: print('RTD err',err.max(),T[err.argmax()],got[err.argmax()],R0,cfg,lead)
    except Exception as ex: print('RTD raises',ex,R0,a,b,c,T.min())
print('RTD worst rel err',worst,n)
# Thermistor
worst=0
for _ in range(300):
    a,b,c=1.129241e-3*rng.uniform(.9,1.1),2.341077e-4*rng.uniform(.9,1.1),8.775468e-8*rng.uniform(.9,1.1)
    ext=rng.choice([10134,10322]); exv=rng.uniform(1e-5,1e-3) if ext==10134 else rng.uniform(1,10)
    cfg=rng.choice([2,3,4]); lead=rng.choice([0.0,rng.uniform(0,10)]); R1=rng.uniform(1e3,1e5); toff=rng.choice([0.0,273.15])
    TK=np.array([rng.uniform(230,420) for _ in range(20)])
    # invert steinhart-hart for R numerically: solve a+b x+c x^3 = 1/T for x=ln R (monotone)
    x=np.array([np.real([r for r in np.roots([c,0,b,a-1.0/t]) if abs(r.imag)<1e-9][0]) for t in TK]); Rt=np.exp(x)
    k=1.0 if cfg==3 else (2.0 if (cfg==2 and ext==10134) else 0.0)
    Rm=Rt+k*lead
    V=exv*Rm if ext==10134 else exv*Rm/(R1+Rm)
    s=ThermistorScaling(ext,exv,cfg,R1,lead,a,b,c,toff,0xFFFFFFFF)
    got=s.scale(V); err=np.abs(got-(TK-toff))/np.maximum(np.abs(TK-toff),1.0); worst=max(worst,err.max())
    if err.max()>1e-6: print('THERM err',err.max(),ext,cfg,lead)
print('Thermistor worst',worst)
# Strain
worst=0
for _ in range(600):
    cfg=rng.choice([10183,10184,10185,10188,10189,10271,10272]); G=rng.uniform(1,4); nu=rng.uniform(0,.5); Rg=rng.choice([120.0,350.0,1000.0]); RL=rng.choice([0.0,rng.uniform(0,5)])
    Vex=rng.uniform(1,10); V0=rng.choice([0.0,rng.uniform(-1e-3,1e-3)]); gain=rng.choice([1.0,rng.uniform(.5,2)])
    eps=np.array([rng.uniform(-5e-3,5e-3) for _ in range(20)]+[0.0])
    lead_f=(1+RL/Rg) if cfg in (10188,10189,10271,10272) else 1.0
    ea=eps/(lead_f*gain)   # apparent strain seen by ideal bridge
    R0=Rg
    if cfg==10183: R1=R3=R0*(1-ea*G); R2=R4=R0*(1+ea*G)
    elif cfg==10184: R1=R0*(1-ea*nu*G); R2=R0*(1+ea*nu*G); R3=R0*(1-ea*G); R4=R0*(1+ea*G)
    elif cfg==10185: R1=R3=R0*(1-ea*nu*G); R2=R4=R0*(1+ea*G)
    elif cfg==10188: R1=R2=R0*np.ones_like(ea); R3=R0*(1-ea*nu*G); R4=R0*(1+ea*G)
    elif cfg==10189: R1=R2=R0*np.ones_like(ea); R3=R0*(1-ea*G); R4=R0*(1+ea*G)
    else: R1=R2=R3=R0*np.ones_like(ea); R4=R0*(1+ea*G)
    Vo=(R3/(R3+R4)-R2/(R1+R2))*Vex+V0
    s=StrainScaling(cfg,nu,Rg,RL,V0,G,gain,Vex,0xFFFFFFFF)
    got=s.scale(Vo); err=np.abs(got-eps)/np.maximum(np.abs(eps),1e-3); worst=max(worst,err.max())
    if err.max()>1e-6: print('STRAIN err',err.max(),cfg,RL,gain,V0, eps[err.argmax()], got[err.argmax()])
print('Strain worst',worst)
