import io, numpy as np, struct, logging, collections
from enc import *
from nptdms import TdmsFile
from nptdms.log import log_manager
log_manager.set_level(logging.ERROR)
R = TOC['raw']; N = TOC['newobj']; I=TOC['inter']
class Rec(io.BytesIO):
    def __init__(self,b): super().__init__(b); self.log=[]
    def read(self,n=-1):
        p=self.tell(); r=super().read(n); 
        if len(r): self.log.append((p,len(r)))
        return r
    def readinto(self,b):
        p=self.tell(); n=super().readinto(b)
        if n: self.log.append((p,n))
        return n
a=np.arange(100,dtype='<i4'); b=np.arange(100,dtype='<f8')
def mk(inter):
    segs=[];layout=[]  # layout: per segment (data_pos, chunk_size, nchunks, a_off_in_chunk, a_bytes, a_nvals)
    pos=0; ai=0
    for (na,nb,nch) in [(2,3,4),(5,1,3),(1,1,6)]:
        if inter: nb=na
        objs=[obj('<',"/'g'/'b'",(10,nb)),obj('<',"/'g'/'a'",(3,na))]
        data=b''
        for c in range(nch):
            if inter: data+=b''.join(b[i:i+1].tobytes()+a[ai+i:ai+i+1].tobytes() for i in range(na))
            else: data+=b[:nb].tobytes()+a[ai:ai+na].tobytes()
            ai+=na
        sg=segment(objs,data,R|N|(I if inter else 0))
        dp=pos+len(sg)-len(data)
        layout.append((pos,dp,(nb*8+na*4),nch,nb*8,na*4,na))
        segs.append(sg); pos+=len(sg)
    return b''.join(segs),layout,ai
for inter in [False,True]:
    blob,layout,n=mk(inter)
    viol=0; tot=0
    for off in range(0,n+1):
        for ln in range(0,n-off+2):
            st=Rec(blob)
            with TdmsFile.open(st) as f:
                ch=f['g']['a']; st.log.clear()
                got=ch.read_data(off,ln)
                assert list(got)==list(a[:n][off:off+ln]),(off,ln,got)
                reads=list(st.log)
            # allowed
            allowed=[]; start=0
            lo,hi=off,min(off+ln,n)
            for (sp,dp,cs,nch,aoff,ab,na) in layout:
                for c in range(nch):
                    v0=start+c*na; v1=v0+na
                    hit = (v0<hi and v1>lo) if hi>lo else (v0<=lo<v1)
                    if hit:
                        allowed.append((dp+c*cs, dp+(c+1)*cs) if inter else (dp+c*cs+aoff, dp+c*cs+aoff+ab))
                start+=nch*na
            extra=0
            allowed.sort(); merged=[]
            for x,y in allowed:
                if merged and merged[-1][1]>=x: merged[-1][1]=max(merged[-1][1],y)
                else: merged.append([x,y])
            allowed=merged
            for (p,l) in reads:
                if any(p>=x and p+l<=y for x,y in allowed): continue
                if l==4 and any(p==sp for (sp,*_) in layout): continue
                extra+=l
            tot+=1
            if extra: 
                viol+=1
                if viol<6: print('inter' if inter else 'contig',off,ln,'extra bytes',extra,reads,allowed)
    print('inter' if inter else 'contig','violations',viol,'of',tot)
