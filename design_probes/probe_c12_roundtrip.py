import numpy as np, time
from nptdms.types import TimeStamp
from nptdms.timestamp import TdmsTimestamp, TimestampArray, _fractions_per_step
import struct
t0=time.time()
fpus = TimeStamp._fractions_per_microsecond
us = np.arange(10**6)
# vectorised model of the writer: int(us*fpus) python float mult then int() truncation
sf_model = np.array([int(int(u) * fpus) for u in range(10**6)], dtype=np.uint64)
# check model vs real for sample
for u in [0,1,999999,123456, 16000001%10**6]:
    b = TimeStamp(np.datetime64('2020-01-01T00:00:00','us') + np.timedelta64(u,'us')).bytes
    sf, sec = struct.unpack('<Qq', b); assert sf == sf_model[u], (u, sf, sf_model[u])
arr = np.zeros(10**6, dtype=[('second_fractions','<u8'),('seconds','<i8')]); arr['second_fractions']=sf_model
back = TimestampArray(arr).as_datetime64('us')
got = (back - np.datetime64('1904-01-01T00:00:00','us')).astype(np.int64)
bad = np.nonzero(got != us)[0]
print('roundtrip failures', len(bad), bad[:10], (got-us)[bad[:10]], time.time()-t0)
# scalar vs array agreement on random
rng = np.random.default_rng(0)
sfr = rng.integers(0, 2**64, size=20000, dtype=np.uint64)
arr = np.zeros(len(sfr), dtype=[('second_fractions','<u8'),('seconds','<i8')]); arr['second_fractions']=sfr; arr['seconds']=rng.integers(-2**31,2**32,len(sfr))
ta = TimestampArray(arr)
for res in ['s','ms','us','ns']:
    a = ta.as_datetime64(res)
    dis=0
    for i in range(0,len(sfr)):
        s = ta[i].as_datetime64(res)
        if s != a[i]: dis+=1
    print(res, 'scalar/array disagreements', dis, a.dtype, type(ta[0].seconds))
