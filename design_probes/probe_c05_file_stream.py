import io, numpy as np, struct, traceback
from enc import *
from nptdms import TdmsFile
i32 = lambda *v: np.array(v, dtype='<i4').tobytes()
R = TOC['raw']; N = TOC['newobj']
segs = segment([obj('<', "/'g'/'a'", (3,2)), obj('<', "/'g'/'b'", (3,2))], i32(*range(0,16)), R|N)
segs += segment([obj('<', "/'g'/'a'", (3,2)), obj('<', "/'g'/'b'", (3,2))], i32(*range(16,32)), R|N)
with TdmsFile.open(io.BytesIO(segs)) as f:
    print('fresh', [(c['g']['a'][:].tolist(), c['g']['a'].offset) for c in f.data_chunks()])
with TdmsFile.open(io.BytesIO(segs)) as f:
    out=[]
    for c in f.data_chunks():
        out.append((c['g']['a'][:].tolist(), c['g']['a'].offset))
        f['g']['b'][0]
    print('interleaved with index', out)
with TdmsFile.open(io.BytesIO(segs)) as f:
    g1 = f.data_chunks(); g2 = f.data_chunks(); out1=[]; out2=[]
    for c1, c2 in zip(g1, g2):
        out1.append(c1['g']['a'][:].tolist()); out2.append(c2['g']['a'][:].tolist())
    print('two file gens', out1, out2)
with TdmsFile.open(io.BytesIO(segs)) as f:
    g1 = f['g']['a'].data_chunks(); g2 = f['g']['b'].data_chunks(); out1=[]; out2=[]
    for c1, c2 in zip(g1, g2):
        out1.append(c1[:].tolist()); out2.append(c2[:].tolist())
    print('two channel gens', out1, out2)
