import io, numpy as np, random, logging, warnings, collections, traceback, sys
from gen import *
from cmp import *
NOCPLX=[t for t in TYPES if t not in('c64','c128')]
def eq(a,b):
    a=np.asarray(a); b=np.asarray(b)
    if a.dtype.kind=='O' or b.dtype.kind=='O': return list(a)==list(b)
    if a.dtype.names: return a.tobytes()==b.astype(a.dtype).tobytes() if len(a)==len(b) else False
    return a.shape==b.shape and a.astype(a.dtype.newbyteorder('=')).tobytes()==b.astype(b.dtype.newbyteorder('=')).tobytes()
kinds=collections.Counter()
def note(seed,*k):
    kinds[k[:3]]+=1
    if kinds[k[:3]]<=2: print('seed',seed,k)
seed0=int(sys.argv[1]); N=int(sys.argv[2])
for seed in range(seed0,seed0+N):
    rng=random.Random(seed)
    segs=gen_file(rng,types=NOCPLX,max_segs=5)
    blob,idx,bounds=encode_file(segs)
    for raw in [False,True]:
        try: ef=TdmsFile.read(io.BytesIO(blob),raw_timestamps=raw)
        except Exception as ex: note(seed,'eager raises',type(ex).__name__,str(ex)[:60]); continue
        with TdmsFile.open(io.BytesIO(blob),raw_timestamps=raw) as lf:
            # file-level chunks
            acc=collections.defaultdict(list); offs_ok=True
            try:
                cnt=collections.Counter()
                for ch in lf.data_chunks():
                    for g in ch.groups():
                        for cc in g.channels():
                            p=lf[g.name][cc.name].path
                            if cc.offset!=cnt[p]: note(seed,'file chunk offset',p)
                            d=cc[:]; cnt[p]+=len(d); acc[p].append(d)
            except Exception as ex: note(seed,'file chunks raise',type(ex).__name__,str(ex)[:70])
            for g in ef.groups():
                for c in g.channels():
                    full=c[:]; n=len(c); lc=lf[g.name][c.name]
                    if len(full)!=n: note(seed,'len',c.path)
                    tests={}
                    try:
                        tests['lazy[:]']=lc[:]; tests['lazy[...]']=lc[...]; tests['lazy rd']=lc.read_data(); tests['eager rd']=c.read_data(); tests['eager .data']=c.data
                        tests['lazy iter']=list(lc); tests['eager iter']=list(c)
                        chs=[x[:] for x in lc.data_chunks()]
                        tests['lazy chunks']=np.concatenate(chs) if chs else full[0:0]
                        if acc[c.path]: tests['file chunks']=np.concatenate(acc[c.path])
                    except Exception as ex:
                        tb=traceback.extract_tb(ex.__traceback__)[-1]; note(seed,'path raises',type(ex).__name__,tb.name,str(ex)[:60],c.path,c.data_type)
                    for k,v in tests.items():
                        if 'iter' in k:
                            if len(v)!=n: note(seed,'mismatch',k,'len')
                            continue
                        if not eq(v,full): note(seed,'mismatch',k,str(c.data_type))
                    # windows
                    for off in range(0,n+2):
                        for ln in [0,1,2,n,n+1,None]:
                            for ch_,nm in [(lc,'lazy'),(c,'eager')]:
                                try:
                                    w=ch_.read_data(off,ln)
                                    if not eq(w, full[off:(None if ln is None else off+ln)]): note(seed,'window mismatch',nm,str(c.data_type),off,ln)
                                except Exception as ex: note(seed,'window raises',nm,type(ex).__name__,str(ex)[:50],off,ln)
                    for st in [None,0,1,-1,-n-1,n+1,2]:
                        for sp in [None,0,1,-1,-n-1,n+1,n]:
                            for step in [None,1,2,-1,-2]:
                                sl=slice(st,sp,step)
                                try:
                                    w=lc[sl]
                                    if not eq(w, full[sl]): note(seed,'slice mismatch',str(c.data_type),st,sp,step)
                                except Exception as ex: note(seed,'slice raises',type(ex).__name__,str(ex)[:50],st,sp,step)
                    for i in list(range(-n-1,n+1)):
                        try:
                            v=lc[i]; e=full[i]
                            ok = (v==e) if not isinstance(v,float) else (v==e or (v!=v and e!=e))
                            if hasattr(ok,'all'): ok=ok.all()
                            if not ok and not (isinstance(v,(np.floating,np.complexfloating)) and np.isnan(v) and np.isnan(e)): note(seed,'index mismatch',str(c.data_type))
                        except IndexError:
                            if -n<=i<n: note(seed,'index raises IndexError wrongly')
                        except Exception as ex: note(seed,'index raises',type(ex).__name__,str(ex)[:50])
for k,v in sorted(kinds.items(),key=str): print(v,k)
print('done')
