import io, numpy as np, random, logging, warnings, collections, traceback, sys
from gen import *
from nptdms import TdmsFile
from nptdms.log import log_manager
log_manager.set_level(logging.CRITICAL)
warnings.simplefilter('ignore')

def canon(t, arrs):
    """expected list of chunk values -> canonical python representation for comparison"""
    if t=='str': return [v for a in arrs for v in a]
    if t=='ts': return [v for a in arrs for v in a]
    code,dt,size=TYPES[t]
    if not arrs: return np.zeros(0,dtype=dt).tobytes(), np.dtype(dt)
    return np.concatenate([np.asarray(a,dtype=dt) for a in arrs]).tobytes(), np.dtype(dt)

def got_canon(t, data):
    if t=='str': return list(data)
    if t=='ts': return [(int(s),int(f)) for s,f in zip(data.seconds, data.second_fractions)]
    return np.ascontiguousarray(data).astype(data.dtype.newbyteorder('<')).tobytes(), data.dtype.newbyteorder('=')

def read_all(blob, lazy=False):
    res={}
    if lazy:
        with TdmsFile.open(io.BytesIO(blob), raw_timestamps=True) as f:
            for g in f.groups():
                for c in g.channels():
                    res[c.path]=(c.data_type, c[:], len(c), dict(c.properties))
            res['__groups']=[(g.path,[c.path for c in g.channels()],dict(g.properties)) for g in f.groups()]
            res['__root']=dict(f.properties)
    else:
        f=TdmsFile.read(io.BytesIO(blob), raw_timestamps=True)
        for g in f.groups():
            for c in g.channels():
                res[c.path]=(c.data_type, c[:], len(c), dict(c.properties))
        res['__groups']=[(g.path,[c.path for c in g.channels()],dict(g.properties)) for g in f.groups()]
        res['__root']=dict(f.properties)
    return res

def check_against_model(segs, res):
    objs, vals, props, types = expected(segs)
    errs=[]
    chans=[p for p in objs if p.count("'/'")==1 or (p.count("/'")==2)]
    chans=[p for p in objs if p!='/' and len(list(__import__('nptdms').common._path_components(p)))==2]
    for p in chans:
        if p not in res: errs.append(('missing channel',p)); continue
        dt,data,n,pr=res[p]
        t=types.get(p)
        if t is None:
            if n!=0 or len(data)!=0: errs.append(('untyped nonempty',p))
            continue
        exp=canon(t, vals.get(p,[]))
        try: got=got_canon(t,data)
        except Exception as ex: errs.append(('canon fail',p,repr(ex))); continue
        if exp!=got: errs.append(('data mismatch',p,t))
        explen=sum(len(a) for a in vals.get(p,[]))
        if n!=explen: errs.append(('len',p,n,explen))
    for p in res:
        if not p.startswith('__') and p not in chans: errs.append(('extra channel',p))
    return errs

if __name__=='__main__':
    seed0=int(sys.argv[1]) if len(sys.argv)>1 else 0; N=int(sys.argv[2]) if len(sys.argv)>2 else 500
    kinds=collections.Counter()
    for seed in range(seed0,seed0+N):
        rng=random.Random(seed)
        segs=gen_file(rng)
        blob,idx,bounds=encode_file(segs)
        xblob,_,_=encode_file(segs,explicit=True)
        for label,b,lazy in [('compact-eager',blob,False),('compact-lazy',blob,True),('explicit-eager',xblob,False)]:
            try:
                res=read_all(b,lazy)
                errs=check_against_model(segs,res)
            except Exception as ex:
                tb=traceback.extract_tb(ex.__traceback__)[-1]
                errs=[('raises',type(ex).__name__,str(ex)[:80],tb.name)]
            for e in errs:
                key=(label,)+tuple(e[:1])+((e[1],e[3]) if e[0]=='raises' else (e[2],) if e[0]=='data mismatch' else ())
                kinds[key]+=1
                if kinds[key]<=2: print('seed',seed,label,e)
    for k,v in sorted(kinds.items(),key=str): print(v,k)
    print('done')
