import io, numpy as np, struct
from enc import *
from nptdms import TdmsFile
R = TOC['raw']; N = TOC['newobj']
for n in [0,1,3]:
    seg = segment([obj('<', "/'g'/'a'", (3,n))], np.arange(n,dtype='<i4').tobytes(), R|N)
    full=np.arange(n,dtype='<i4'); bad=[]
    with TdmsFile.open(io.BytesIO(seg)) as f:
        c=f['g']['a']
        rngs=[None]+list(range(-n-3,n+4))
        for st in rngs:
            for sp in rngs:
                for step in [None,1,2,3,-1,-2,-3]:
                    try:
                        got=c[st:sp:step]
                        if not np.array_equal(got, full[st:sp:step]): bad.append((st,sp,step,'mismatch',got.tolist(),full[st:sp:step].tolist()))
                    except Exception as ex: bad.append((st,sp,step,type(ex).__name__,str(ex)))
    print('n',n,'bad',len(bad),bad[:6])
