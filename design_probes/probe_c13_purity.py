import numpy as np, warnings
from nptdms import scaling as S
from nptdms.base_segment import RawChannelDataChunk
warnings.simplefilter('ignore')
mk={
 'linear':lambda: S.LinearScaling(1.0,2.0,0xFFFFFFFF),
 'poly':lambda: S.PolynomialScaling([1.0,2.0,3.0],0xFFFFFFFF),
 'poly0':lambda: S.PolynomialScaling([],0xFFFFFFFF),
 'table':lambda: S.TableScaling(np.array([0.0,10.0]),np.array([0.0,1.0]),0xFFFFFFFF),
 'rtd':lambda: S.RtdScaling(1e-3,100.0,3.9083e-3,-5.775e-7,-4.183e-12,0.0,4,0xFFFFFFFF),
 'thermistor':lambda: S.ThermistorScaling(10134,1e-4,4,1e4,0.0,1.129241e-3,2.341077e-4,8.775468e-8,273.15,0xFFFFFFFF),
 'tc0':lambda: S.ThermocoupleScaling(10073,0,0xFFFFFFFF),'tc1':lambda: S.ThermocoupleScaling(10073,1,0xFFFFFFFF),
 'noop':lambda: S.NoOpScaling(0xFFFFFFFF),
}
for cfg in [10183,10184,10185,10188,10189,10271,10272]:
    mk['strain%d'%cfg]=(lambda cfg=cfg: S.StrainScaling(cfg,0.3,350.0,1.0,1e-4,2.0,1.0,5.0,0xFFFFFFFF))
for name,f in mk.items():
    for dt in ['f8','f4','i4']:
        raw=(np.array([0.09,0.1,0.12,0.2])*(1 if dt!='i4' else 1000)).astype(dt); before=raw.tobytes(); raw.flags.writeable=False
        ms=S.MultiScaling([f()])
        try:
            out=ms.scale(RawChannelDataChunk.channel_data(raw))
            alias = np.shares_memory(out,raw)
            print(name,dt,'ok', 'ALIAS-RAW' if alias else '', 'CHANGED' if raw.tobytes()!=before else '')
        except ValueError as ex: print(name,dt,'RAISES',str(ex)[:70])
